// C10 — networked cache (tcp_cache_service + cache_over_ip clients, each optionally with a node-local L1 cache) never serves
// data another node replaced; values / trigger sets / deadlines survive the wire format; keys are spread over the servers
// consistently.
//
// Fixture: one process runs two real tcp_cache_service instances on loopback ports (server-side caches: unlimited thread caches
// the harness keeps a pointer to, for direct inspection).  Every case creates 2..3 fresh clients with tcp_cache_factory(ips, ports,
// L1 or null) inside a worker thread of its own (the connections live in a thread_specific_ptr and are closed when the thread ends)
// and interprets a generated sequential history store/fetch/rise/clear/stats/tick against the clients and, in lock-step, against a
// reference model of ONE cache (plain std::map; nothing in it comes from the code under test).
// Clock: time() is interposed (virtual clock shared by servers, L1 caches and the model).
// I/O: ::readv/::writev are interposed; a per-case cut set over stream positions makes the library's reads and writes on the cache
// protocol sockets short (client: blocking sockets, server: non-blocking + EAGAIN injection).  Results must not depend on it.
#include "vrc.h"
#include "base_cache.h"
#include "cache_storage.h"
#include "cache_over_ip.h"
#include "tcp_cache_server.h"
#include "tcp_cache_protocol.h"
#include <cppcms/session_storage.h>
#include <booster/shared_ptr.h>
#include <booster/intrusive_ptr.h>
#include <atomic>
#include <mutex>
#include <map>
#include <set>
#include <thread>
#include <memory>
#include <limits>
#include <sys/uio.h>
#include <sys/socket.h>
#include <netinet/in.h>
#include <netinet/tcp.h>
#include <fcntl.h>
#include <errno.h>
#include <unistd.h>
#include <time.h>
#include <sys/wait.h>
#include <sys/time.h>

using vr::Outcome; using vr::ok; using vr::bad;
typedef booster::intrusive_ptr<cppcms::impl::base_cache> cache_ptr;
typedef std::set<std::string> sset;

// ------------------------------------------------------------------------------------------------ virtual clock
static const time_t T0 = 1000000;
static std::atomic<long long> g_now(T0);
extern "C" time_t __wrap_time(time_t *t) { time_t n = (time_t)g_now.load(); if (t) *t = n; return n; }

// ------------------------------------------------------------------------------------------------ I/O schedule
// A cut set over stream positions: position q (bytes transferred so far on this descriptor in this direction, counted from the start
// of the case) is a cut when mix(seed, dir, q) % density == 0.  No library read/write may cross a cut, so the segmentation of every
// request and reply is a function of the case alone, whatever the thread timing is (timing can only add cuts).
namespace io {
static const int MAXFD = 4096;
static std::atomic<unsigned> density(0);      // 0 = unrestricted
static std::atomic<unsigned> eagain(0);       // 1 = a non-blocking writer gets EAGAIN once at every cut
static std::atomic<unsigned long long> seed(0);
static std::atomic<long long> rpos[MAXFD], wpos[MAXFD], stall[MAXFD];
static std::atomic<long long> short_reads(0), short_writes(0), eagains(0);
static inline uint64_t mix(uint64_t a, uint64_t b, uint64_t c) {
    uint64_t x = a * 0x9E3779B97F4A7C15ULL ^ (b + 0x632BE59BD9B4E019ULL) * 0xD6E8FEB86659FD93ULL ^ (c + 1) * 0xC2B2AE3D27D4EB4FULL;
    x ^= x >> 32; x *= 0xD6E8FEB86659FD93ULL; x ^= x >> 29; x *= 0x9E3779B97F4A7C15ULL; x ^= x >> 32;
    return x;
}
static inline bool is_cut(unsigned d, int dir, long long q) { return mix(seed.load(std::memory_order_relaxed), (uint64_t)dir, (uint64_t)q) % d == 0; }
static inline size_t room(unsigned d, int dir, long long p) {      // bytes allowed from position p: up to and including the next cut
    long long q = p + 1; int guard = 0;
    while (!is_cut(d, dir, q) && guard < 100000) { q++; guard++; }
    return (size_t)(q - p);
}
static void reset(unsigned d, unsigned ea, unsigned long long s) {
    density = 0;
    for (int i = 0; i < MAXFD; i++) { rpos[i] = 0; wpos[i] = 0; stall[i] = -1; }
    seed = s; eagain = ea; density = d;
}
static size_t total(const struct iovec *iov, int cnt) { size_t t = 0; for (int i = 0; i < cnt; i++) t += iov[i].iov_len; return t; }
static int trunc(const struct iovec *iov, int cnt, size_t cap, struct iovec *out) {
    int n = 0;
    for (int i = 0; i < cnt && cap > 0; i++) {
        if (iov[i].iov_len == 0) continue;
        out[n] = iov[i];
        if (out[n].iov_len > cap) out[n].iov_len = cap;
        cap -= out[n].iov_len; n++;
    }
    return n;
}
}
extern "C" {
ssize_t __real_readv(int fd, const struct iovec *iov, int cnt);
ssize_t __real_writev(int fd, const struct iovec *iov, int cnt);
ssize_t __wrap_readv(int fd, const struct iovec *iov, int cnt) {
    unsigned d = io::density.load(std::memory_order_relaxed);
    if (!d || fd < 0 || fd >= io::MAXFD || cnt > 16 || cnt < 1) return __real_readv(fd, iov, cnt);
    long long p = io::rpos[fd].load(std::memory_order_relaxed);
    size_t cap = io::room(d, 0, p), tot = io::total(iov, cnt);
    ssize_t r;
    if (tot > cap) {
        struct iovec tmp[16];
        int n = io::trunc(iov, cnt, cap, tmp);
        r = __real_readv(fd, tmp, n);
        if (r > 0 && (size_t)r == cap) io::short_reads++;
    } else r = __real_readv(fd, iov, cnt);
    int e = errno;
    if (r > 0) io::rpos[fd].fetch_add(r, std::memory_order_relaxed);
    errno = e;
    return r;
}
ssize_t __wrap_writev(int fd, const struct iovec *iov, int cnt) {
    unsigned d = io::density.load(std::memory_order_relaxed);
    if (!d || fd < 0 || fd >= io::MAXFD || cnt > 16 || cnt < 1) return __real_writev(fd, iov, cnt);
    long long p = io::wpos[fd].load(std::memory_order_relaxed);
    size_t tot = io::total(iov, cnt);
    if (tot > 0 && p > 0 && io::eagain.load(std::memory_order_relaxed) && io::is_cut(d, 1, p) && io::stall[fd].load() != p) {
        int fl = fcntl(fd, F_GETFL);
        if (fl >= 0 && (fl & O_NONBLOCK)) { io::stall[fd] = p; io::eagains++; errno = EAGAIN; return -1; }
    }
    size_t cap = io::room(d, 1, p);
    ssize_t r;
    if (tot > cap) {
        struct iovec tmp[16];
        int n = io::trunc(iov, cnt, cap, tmp);
        r = __real_writev(fd, tmp, n);
        if (r > 0) io::short_writes++;
    } else r = __real_writev(fd, iov, cnt);
    int e = errno;
    if (r > 0) io::wpos[fd].fetch_add(r, std::memory_order_relaxed);
    errno = e;
    return r;
}
}

// ------------------------------------------------------------------------------------------------ fixture: two cache servers
// Every case opens fresh connections (2..6) and closes them again: left alone, the closing side's ports pile up in TIME_WAIT by the ten
// thousand per minute and exhaust the ephemeral range of the whole (shared) machine.  connect() is interposed to switch lingering off, so
// close() resets the connection instead (nothing is in flight then: every request has been answered).  The services listen on ports below
// the ephemeral range, so starting them does not depend on a free ephemeral port either.
extern "C" {
int __real_connect(int fd, const struct sockaddr *a, socklen_t l);
int __wrap_connect(int fd, const struct sockaddr *a, socklen_t l) {
    int r = __real_connect(fd, a, l);
    int e = errno;
    if (a && a->sa_family == AF_INET) { struct linger lg; lg.l_onoff = 1; lg.l_linger = 0; setsockopt(fd, SOL_SOCKET, SO_LINGER, &lg, sizeof lg); }
    errno = e;
    return r;
}
}
// The store a cache service works on: forwards to an in-memory cache that is replaced by a brand-new one at the start of every case, so
// that every case sees what a freshly started cache server hands out (generation stamps from 0: stamps of different keys, of the two
// servers and of a node's L1 collide as often as they can).
struct RenewableCache : public cppcms::impl::base_cache {
    std::mutex m; cache_ptr inner; std::atomic<int> refs{0};
    RenewableCache() : inner(cppcms::impl::thread_cache_factory(0)) {}
    cache_ptr get() { std::lock_guard<std::mutex> g(m); return inner; }
    void renew() { cache_ptr n = cppcms::impl::thread_cache_factory(0); std::lock_guard<std::mutex> g(m); inner.swap(n); }
    bool fetch(std::string const &key, std::string *a, sset *tags, time_t *timeout_out, uint64_t *gen) override { return get()->fetch(key, a, tags, timeout_out, gen); }
    void store(std::string const &key, std::string const &b, sset const &triggers, time_t timeout, uint64_t const *gen) override { get()->store(key, b, triggers, timeout, gen); }
    void rise(std::string const &trigger) override { get()->rise(trigger); }
    void remove(std::string const &key) override { get()->remove(key); }
    void clear() override { get()->clear(); }
    void stats(unsigned &keys, unsigned &triggers) override { get()->stats(keys, triggers); }
    void add_ref() override { ++refs; }
    bool del_ref() override { return --refs == 0; }
};
struct Server {
    booster::intrusive_ptr<RenewableCache> cache;                  // the server-side store, inspected directly
    std::unique_ptr<cppcms::impl::tcp_cache_service> srv;
    int port = 0;
};
static Server g_srv[2];
static void fresh_servers() { g_srv[0].cache->renew(); g_srv[1].cache->renew(); }
static void start_servers() {
    // the machine is shared: a port picked a moment ago may be taken, descriptors / threads may be scarce for a while - retry for about a minute
    for (int i = 0; i < 2; i++) {
        g_srv[i].cache = new RenewableCache();
        std::string why;
        for (int attempt = 0; attempt < 240 && !g_srv[i].srv; attempt++) {
            if (attempt) usleep(attempt < 20 ? 20000 : 300000);
            int p = 10000 + (int)(((long long)getpid() * 7 + attempt * 101 + i * 13) % 20000);
            try {
                g_srv[i].srv.reset(new cppcms::impl::tcp_cache_service(g_srv[i].cache, booster::shared_ptr<cppcms::sessions::session_storage_factory>(), 1, "127.0.0.1", p));
                g_srv[i].port = p;
            } catch (std::exception const &e) { why = e.what(); g_srv[i].srv.reset(); }
        }
        if (!g_srv[i].srv) { fprintf(stderr, "cannot start cache server %d: %s\n", i, why.c_str()); _exit(3); }
    }
}

// ------------------------------------------------------------------------------------------------ case
enum Kind { STORE, FETCH, RISE, CLEAR, STATS, TICK, NKINDS };
static const char *kind_names[] = {"store", "fetch", "rise", "clear", "stats", "tick"};
static const long long FAR = 1000;

struct Op {
    int kind = FETCH;
    int client = 0;
    int name = 0;              // key (STORE/FETCH) or trigger (RISE): index into Case::names, >= 1000: synthetic name
    int mode = 0;              // FETCH: 0 all outputs, 1 no trigger set requested, 2 presence only; STORE: 0 relative deadline, 1 absolute
    long long dl = 0;          // STORE: deadline (relative to now / absolute); TICK: dt
    int vlen = 0, vseed = 0;
    std::vector<int> trigs;    // STORE
    void encode(vr::CaseWriter &w) const {
        w.w(kind_names[kind]).i(client).i(name).i(mode).i(dl).i(vlen).i(vseed).i((long long)trigs.size());
        for (int t : trigs) w.i(t);
        w.nl();
    }
    static Op decode(vr::CaseReader &r) {
        Op o; std::string k = r.w(); o.kind = -1;
        for (int i = 0; i < NKINDS; i++) if (k == kind_names[i]) o.kind = i;
        if (o.kind < 0) throw std::runtime_error("unknown op " + k);
        o.client = (int)r.i(); o.name = (int)r.i(); o.mode = (int)r.i(); o.dl = r.i(); o.vlen = (int)r.i(); o.vseed = (int)r.i();
        long long n = r.i(); for (long long i = 0; i < n; i++) o.trigs.push_back((int)r.i());
        return o;
    }
};

// Bit mask of (former) defect classes that are searched.  Both are fixed in /repo and searched by default; a class is excluded by
// construction again only while known_findings.json lists it as an open finding (props/c10.py sets C10_EXCLUDE_KNOWN then).
enum { INC_EMPTYTRIG = 1, INC_TRIGMERGE = 2, INC_FRAMEWRAP = 4 };
static int include_mask() {
    std::string s = vr::env("C10_EXCLUDE_KNOWN", "");
    int m = INC_EMPTYTRIG | INC_TRIGMERGE | INC_FRAMEWRAP;
    if (s.find("framewrap") != std::string::npos || s.find("all") != std::string::npos) m &= ~INC_FRAMEWRAP;
    if (s.find("emptytrig") != std::string::npos || s.find("all") != std::string::npos) m &= ~INC_EMPTYTRIG;
    if (s.find("trigmerge") != std::string::npos || s.find("all") != std::string::npos) m &= ~INC_TRIGMERGE;
    return m;
}

struct Case {
    int nserv = 1;             // 1..2 servers in the clients' lists
    int swap = 0;              // 1: the list starts with the second service
    std::vector<int> l1;       // per client: -1 no L1, 0 unlimited L1, n>0 L1 limited to n entries
    int io_density = 0, io_eagain = 0; unsigned long long io_seed = 0;
    int include = 0;           // INC_* bits
    int nkeys = 1;             // names[0..nkeys) are keys (and usable as triggers), the rest are trigger names only
    std::vector<std::string> names;
    std::vector<Op> ops;
    void encode(vr::CaseWriter &w) const {
        w.i(nserv).i(swap).i((long long)l1.size());
        for (int x : l1) w.i(x);
        w.i(io_density).i(io_eagain).u(io_seed).i(include).i(nkeys).i((long long)names.size()).nl();
        for (auto &n : names) w.s(n);
        w.nl().i((long long)ops.size()).nl();
        for (auto &o : ops) o.encode(w);
    }
    static Case decode(vr::CaseReader &r) {
        Case c; c.nserv = (int)r.i(); c.swap = (int)r.i();
        long long n = r.i(); for (long long i = 0; i < n; i++) c.l1.push_back((int)r.i());
        c.io_density = (int)r.i(); c.io_eagain = (int)r.i(); c.io_seed = r.u(); c.include = (int)r.i(); c.nkeys = (int)r.i();
        n = r.i(); for (long long i = 0; i < n; i++) c.names.push_back(r.s());
        n = r.i(); for (long long i = 0; i < n; i++) c.ops.push_back(Op::decode(r));
        return c;
    }
    std::string name(int i) const {
        if (i >= 0 && i < (int)names.size()) return names[i];
        std::string s = "syn-" + std::to_string(i);          // synthetic trigger names (long trigger lists)
        if (i % 3 == 0) s += "-0123456789abcdefghijklmnopqrstuvwxyz";
        if (i % 7 == 0) s += std::string(60, char('A' + i % 26));
        return s;
    }
};

static std::string value_of(int seed, int len) {
    std::string s((size_t)len, '\0');
    uint64_t x = (uint64_t)(uint32_t)seed * 0x9E3779B97F4A7C15ULL + (uint64_t)len * 40503u + 12345u;
    for (int j = 0; j < len; j++) { x = x * 6364136223846793005ULL + 1442695040888963407ULL; s[j] = char(x >> 56); }
    if (len > 0 && seed % 4 == 0) s[(size_t)seed % (size_t)len] = '\0';       // NUL bytes also in short values
    if (len > 2 && seed % 4 == 1) for (auto &ch : s) if (ch == 0) ch = 'n';      // and values without any
    return s;
}
static std::string show_set(sset const &s, size_t max = 8) {
    std::string r = "{"; size_t n = 0;
    for (auto &t : s) { if (n == max) { r += ",...(" + std::to_string(s.size()) + ")"; break; } r += (n ? "," : "") + (t.empty() ? std::string("\"\"") : vr::show(t, 24)); n++; }
    return r + "}";
}
static uint64_t hash_case(Case const &c) { vr::CaseWriter w; c.encode(w); return vr::fnv(w.str()); }

// ------------------------------------------------------------------------------------------------ reference model
// One cache for the whole installation.  An entry is live while deadline >= now; store always adds the key itself as a trigger.
struct Entry { std::string val; sset trig; long long deadline = 0; long long version = 0; bool empty_trig = false;
               bool had_prev = false; std::string prev_val; long long prev_deadline = 0; };      // the entry this store replaced (signature refinement only)
struct Change { long long version = 0; int by = -1; int how = 0; };   // last mutation that touched a key: how 1 store, 2 rise, 3 clear
// What a client's L1 may hold for a key: `may` is a superset and `must` a subset of the copy's trigger set (equal whenever the set was
// observed); existence itself is an over-approximation (a limited L1 may have evicted the copy).
struct Shadow { sset may, must; long long deadline = 0; long long version = 0; };
struct Model {
    std::map<std::string, Entry> m;
    std::map<std::string, Change> last;
    long long version = 0;
    void store(int by, std::string const &k, std::string const &v, sset const &t, long long dl) {
        Entry e; e.val = v; e.trig = t; e.empty_trig = t.count("") != 0; e.trig.insert(k); e.deadline = dl; e.version = ++version;
        auto old = m.find(k);
        if (old != m.end()) { e.had_prev = true; e.prev_val = old->second.val; e.prev_deadline = old->second.deadline; }
        m[k] = e; last[k] = Change{version, by, 1};
    }
    void rise(int by, std::string const &t) {
        for (auto p = m.begin(); p != m.end();) {
            if (p->second.trig.count(t)) { last[p->first] = Change{++version, by, 2}; p = m.erase(p); } else ++p;
        }
    }
    void clear(int by) { for (auto &kv : m) last[kv.first] = Change{++version, by, 3}; m.clear(); }
    Entry const *live(std::string const &k, long long now) const {
        auto p = m.find(k);
        if (p == m.end() || p->second.deadline < now) return nullptr;
        return &p->second;
    }
    unsigned keys() const { return (unsigned)m.size(); }
    unsigned triggers() const { unsigned n = 0; for (auto &kv : m) n += (unsigned)kv.second.trig.size(); return n; }
};

// ------------------------------------------------------------------------------------------------ the property body
struct Runner {
    Case const &c;
    std::vector<cache_ptr> cl;
    std::vector<std::map<std::string, Shadow>> shadow;
    Model M;
    std::vector<std::string> trace;
    std::map<std::string, int> placement;
    bool nt = false;
    int srv_of(int i) const { return c.swap ? 1 - i : i; }       // position in the clients' list -> service
    explicit Runner(Case const &cc) : c(cc) {}

    std::string ctx() const {
        std::string s = "servers=" + std::to_string(c.nserv) + (c.swap ? "(swapped)" : "") + " l1=[";
        for (size_t i = 0; i < c.l1.size(); i++) s += (i ? "," : "") + std::to_string(c.l1[i]);
        s += "] io=" + std::to_string(c.io_density) + " | ";
        size_t from = trace.size() > 14 ? trace.size() - 14 : 0;
        for (size_t i = from; i < trace.size(); i++) s += trace[i] + "; ";
        return s;
    }
    Outcome fail(std::string const &sig, std::string const &msg) { return bad(sig, msg + " || " + ctx()); }
    // root cause class of a mismatch: the last store of the key carried the empty trigger name and what is observed is exactly the state
    // before that store (the server refused it, finding server:store-with-empty-trigger-name-refused)
    Outcome fail_e(Entry const *e, bool as_if_store_dropped, std::string const &sig, std::string const &msg) {
        if (e && e->empty_trig && as_if_store_dropped)
            return fail("server:store-with-empty-trigger-name-refused", "[" + sig + "] " + msg + " -- the last store of this key carried the empty trigger name and had no effect");
        return fail(sig, msg);
    }

    // which servers hold a live copy of key k right now (direct inspection, no network)
    int holders(std::string const &k, int &where, uint64_t &gen) {
        int n = 0;
        for (int i = 0; i < 2; i++) {
            uint64_t g = 0;
            if (g_srv[i].cache->fetch(k, 0, 0, 0, &g)) { n++; where = i; gen = g; }
        }
        return n;
    }

    Outcome do_fetch(int ci, std::string const &k, int mode, bool sweep) {
        long long now = g_now.load();
        Entry const *e = M.live(k, now);
        bool has_l1 = c.l1[ci] >= 0;
        // does this client's L1 (possibly) hold a copy that would be a hit, and is it stale?
        Shadow const *sh = nullptr;
        if (has_l1) { auto p = shadow[ci].find(k); if (p != shadow[ci].end() && p->second.deadline >= now) sh = &p->second; }
        bool stale = sh && (!e || e->version != sh->version);
        if (stale) {
            Change const &ch = M.last[k];
            const char *how = ch.how == 1 ? "store" : ch.how == 2 ? "rise" : "clear";
            if (ch.by != ci) { nt = true; VR.cls(std::string("nt.stale_l1_after_") + how + "_by_other" + (c.l1[ci] > 0 ? "(limited l1)" : "")); }
            else VR.cls(std::string("fetch.stale_l1_after_own_") + how);
        } else if (sh) VR.cls("fetch.l1_copy_current");

        std::string val = "<unset>"; sset tags; time_t to = -12345; uint64_t gen = ~0ULL;
        bool r;
        if (mode == 0) r = cl[ci]->fetch(k, &val, &tags, &to, &gen);
        else if (mode == 1) r = cl[ci]->fetch(k, &val, 0, &to, &gen);
        else r = cl[ci]->fetch(k, 0, 0, 0, 0);
        trace.push_back("c" + std::to_string(ci) + (sweep ? ".sweep(" : ".fetch(") + vr::show(k, 16) + ")=" + (r ? (mode == 2 ? std::string("hit") : "hit/" + std::to_string(val.size()) + "B") : "miss"));
        std::string who = "client " + std::to_string(ci) + (has_l1 ? " (L1)" : " (no L1)") + " fetch(" + vr::show(k, 40) + ")";
        if (!e) {
            if (r) {
                const char *sig = stale ? "coherence:stale-l1-copy-served" : "fetch:hit-on-dead-entry";
                return fail(sig, who + " returned a value (" + vr::show(val, 40) + ") although the entry was invalidated/expired/never stored");
            }
            if (has_l1) shadow[ci].erase(k);
            VR.cls("fetch.miss");
            return ok();
        }
        if (!r) return fail_e(e, !e->had_prev || e->prev_deadline < now, "fetch:miss-on-live-entry", who + " missed although the last completed store is live (deadline " + std::to_string(e->deadline) + ", now " + std::to_string(now) + ")");
        VR.cls("fetch.hit");
        if (mode != 2) {
            if (val != e->val) {
                bool older = stale;
                return fail_e(e, e->had_prev && val == e->prev_val, older ? "coherence:stale-l1-copy-served" : "wire:value-differs",
                            who + " returned " + std::to_string(val.size()) + "B " + vr::show(val, 40) + ", current value is " + std::to_string(e->val.size()) + "B " + vr::show(e->val, 40));
            }
            if ((long long)to != e->deadline) return fail_e(e, e->had_prev && (long long)to == e->prev_deadline, stale ? "coherence:stale-l1-deadline" : "wire:deadline-differs", who + " deadline " + std::to_string((long long)to) + " != " + std::to_string(e->deadline));
            // generation: the stamp the client hands out is the one the holding server has now
            int where = -1; uint64_t sg = 0;
            int n = holders(k, where, sg);
            if (n != 1) return fail("placement:key-not-on-exactly-one-server", vr::show(k, 40) + " is live on " + std::to_string(n) + " servers");
            if (gen != sg) return fail("coherence:generation-differs", who + " generation " + std::to_string(gen) + " != server's " + std::to_string(sg));
            int pos = c.swap ? 1 - where : where;
            if (pos >= c.nserv) return fail("placement:key-on-unlisted-server", vr::show(k, 40));
            auto pl = placement.find(k);
            if (pl == placement.end()) placement[k] = where;
            else if (pl->second != where) return fail("placement:key-moved-between-servers", vr::show(k, 40));
        }
        if (mode == 0) {
            if (tags != e->trig) {
                // Defect class l1:refresh-merges-stale-triggers (cache_over_ip::fetch, fixed in /repo): when a stale L1 copy was refreshed the
                // trigger set handed out was the union of the L1 copy's triggers and the current ones.  Only if the class is excluded
                // (open finding) a superset within that union is tolerated, exactly where the client's L1 can hold a copy with other
                // triggers; everywhere else, and by default, the comparison is exact.
                bool tolerated = false;
                if (!(c.include & INC_TRIGMERGE) && sh) {
                    tolerated = true;
                    for (auto &t : e->trig) if (!tags.count(t)) tolerated = false;
                    for (auto &t : tags) if (!e->trig.count(t) && !sh->may.count(t)) tolerated = false;
                }
                if (!tolerated) {
                    bool merge = sh != nullptr;
                    for (auto &t : e->trig) if (!tags.count(t)) merge = false;
                    return fail(merge ? "l1:refresh-merges-stale-triggers" : "wire:triggers-differ",
                                who + " trigger set " + show_set(tags) + " (" + std::to_string(tags.size()) + ") != current " + show_set(e->trig) + " (" + std::to_string(e->trig.size()) + ")");
                }
                VR.excl("l1-refresh-merged-stale-triggers");
            }
        } else if (mode == 1 && !tags.empty()) return fail("fetch:triggers-without-request", who);
        if (has_l1) {
            // what the L1 holds after this fetch: mode 0 -> the set handed out; otherwise the L1's own copy / the server's set (not observed)
            Shadow s; s.deadline = e->deadline; s.version = e->version;
            if (mode == 0) s.may = s.must = tags;
            else { s.may = s.must = e->trig; if (sh) s.may.insert(sh->may.begin(), sh->may.end()); }
            shadow[ci][k] = s;
        }
        return ok();
    }

    Outcome run() {
        int ncl = (int)c.l1.size();
        if (ncl < 1 || ncl > 4 || c.nserv < 1 || c.nserv > 2 || c.nkeys < 1 || c.nkeys > (int)c.names.size()) return bad("harness:bad-case", "malformed case");
        for (auto &n : c.names) if (n.find('\0') != std::string::npos) return bad("harness:bad-case", "NUL in a key/trigger name (outside the protocol's domain)");
        for (int i = 0; i < c.nkeys; i++) if (c.names[i].empty()) return bad("harness:bad-case", "empty key (outside the protocol's domain)");
        // fresh state
        g_now = T0;
        fresh_servers();
        io::reset((unsigned)c.io_density, (unsigned)c.io_eagain, c.io_seed);
        std::vector<std::string> ips; std::vector<int> ports;
        for (int i = 0; i < c.nserv; i++) { ips.push_back("127.0.0.1"); ports.push_back(g_srv[srv_of(i)].port); }
        shadow.resize(ncl);
        for (int i = 0; i < ncl; i++) {
            cache_ptr l1;
            if (c.l1[i] >= 0) l1 = cppcms::impl::thread_cache_factory((unsigned)c.l1[i]);
            cl.push_back(cppcms::impl::tcp_cache_factory(ips, ports, l1));
        }
        VR.cls("cfg.servers=" + std::to_string(c.nserv));
        VR.cls("cfg.clients=" + std::to_string(ncl));
        for (int x : c.l1) VR.cls(x < 0 ? "cfg.client_without_l1" : x == 0 ? "cfg.client_l1_unlimited" : "cfg.client_l1_limited");
        VR.cls("cfg.io_density=" + std::to_string(c.io_density) + (c.io_eagain ? "+eagain" : ""));
        sset used_keys;
        for (auto const &op : c.ops) {
            int ci = ((op.client % ncl) + ncl) % ncl;
            long long now = g_now.load();
            switch (op.kind) {
            case STORE: {
                std::string k = c.name(op.name % c.nkeys);
                std::string v = value_of(op.vseed, op.vlen);
                sset t;
                for (int ti : op.trigs) {
                    std::string tn = c.name(ti);
                    if (tn.empty() && !(c.include & INC_EMPTYTRIG)) { VR.excl("store-with-empty-trigger-name"); continue; }
                    t.insert(tn);
                }
                long long dl = op.mode == 1 ? op.dl : now + op.dl;
                trace.push_back("c" + std::to_string(ci) + ".store(" + vr::show(k, 16) + "," + std::to_string(v.size()) + "B," + show_set(t, 4) + "," + (op.mode == 1 ? "abs " : "now+") + std::to_string(op.dl) + ")");
                cl[ci]->store(k, v, t, (time_t)dl);
                M.store(ci, k, v, t, dl);
                if (c.l1[ci] >= 0) shadow[ci].erase(k);                    // own store drops the own L1 copy
                used_keys.insert(k);
                VR.cls(v.empty() ? "value.empty" : v.find('\0') != std::string::npos ? "value.with_nul" : "value.without_nul");
                if (v.size() >= 60000) VR.cls("value.60k+");
                if (t.size() >= 40) VR.cls("store.long_trigger_list");
                if (t.count("")) VR.cls("store.empty_trigger_name");
                if (dl < now) VR.cls("store.deadline_past"); else if (dl > now + 100000) VR.cls("store.deadline_huge");
                for (auto &x : t) if (x != k && M.m.count(x)) { VR.cls("store.trigger_is_another_key"); break; }
                break; }
            case FETCH: {
                std::string k = c.name(op.name % c.nkeys);
                Outcome o = do_fetch(ci, k, op.mode % 3, false);
                if (!o.ok()) return o;
                break; }
            case RISE: {
                std::string t = c.name(op.name);
                trace.push_back("c" + std::to_string(ci) + ".rise(" + vr::show(t, 16) + ")");
                cl[ci]->rise(t);
                M.rise(ci, t);
                if (c.l1[ci] >= 0) for (auto p = shadow[ci].begin(); p != shadow[ci].end();) { if (p->second.must.count(t)) p = shadow[ci].erase(p); else ++p; }
                break; }
            case CLEAR:
                trace.push_back("c" + std::to_string(ci) + ".clear");
                cl[ci]->clear();
                M.clear(ci);
                shadow[ci].clear();
                break;
            case STATS: {
                unsigned k = 99999, t = 99999;
                cl[ci]->stats(k, t);
                trace.push_back("c" + std::to_string(ci) + ".stats=" + std::to_string(k) + "/" + std::to_string(t));
                if (k != M.keys() || t != M.triggers())
                    return fail("stats:differs", "client " + std::to_string(ci) + " stats keys=" + std::to_string(k) + " triggers=" + std::to_string(t) + ", model " + std::to_string(M.keys()) + "/" + std::to_string(M.triggers()));
                VR.cls("stats.checked");
                break; }
            case TICK:
                trace.push_back("tick(" + std::to_string(op.dl) + ")");
                g_now = now + (op.dl < 0 ? 0 : op.dl);
                break;
            default: return bad("harness:bad-case", "unknown op");
            }
        }
        // final sweep: every client fetches every key of the alphabet
        for (int ci = 0; ci < ncl; ci++)
            for (int ki = 0; ki < c.nkeys; ki++) {
                Outcome o = do_fetch(ci, c.name(ki), 0, true);
                if (!o.ok()) return o;
            }
        // the service that is not in the clients' list must never have been touched
        if (c.nserv == 1) {
            unsigned k = 0, t = 0;
            g_srv[srv_of(1)].cache->stats(k, t);
            if (k || t) return fail("placement:key-on-unlisted-server", "the unlisted service holds " + std::to_string(k) + " keys");
        }
        if (c.nserv == 2) { sset used; for (auto &p : placement) used.insert(std::to_string(p.second)); if (used.size() == 2) VR.cls("placement.both_servers_hold_keys"); }
        return ok();
    }
};

// Safety net, never an oracle: a case that does not come back (a peer blocked for ever in a read after the protocol lost its framing - only
// seen with mutated libraries) is counted as inconclusive and ends the process unfinished, which the driver reports as a broken check.
static std::atomic<long long> g_case_started(0);
static long long mono_s() { struct timespec ts; clock_gettime(CLOCK_MONOTONIC, &ts); return (long long)ts.tv_sec; }
static void start_watchdog() {
    long limit = vr::envl("C10_CASE_TIMEOUT_S", 900);
    std::thread([limit] {
        for (;;) {
            sleep(2);
            long long st = g_case_started.load();
            if (st && mono_s() - st > limit) { VR.inconclusive++; VR.flush(); fprintf(stderr, "watchdog: a case did not finish within %ld s\n", limit); _exit(0); }
        }
    }).detach();
}

// All library calls of a case happen in a thread of its own: cache_over_ip keeps its connections in a thread_specific_ptr whose
// content is destroyed at thread exit only.
template <class F> static Outcome in_thread(F f) {
    Outcome o; std::string what; bool threw = false;
    g_case_started = mono_s();
    struct Stop { ~Stop() { g_case_started = 0; } } stop_guard;
    std::thread th([&] { try { o = f(); } catch (std::exception const &e) { threw = true; what = e.what(); } });
    th.join();
    io::density = 0;
    if (threw) return bad("exception:cache-client", "exception escaped a cache operation: " + what);
    return o;
}

static Outcome p_history(Case const &c) {
    VR.eval();
    bool nt = false; std::string summary;
    Outcome o = in_thread([&] {
        Runner r(c);
        Outcome x = r.run();
        nt = r.nt;
        if (x.ok() && VR.want_sample()) {
            summary = "servers=" + std::to_string(c.nserv) + " l1=[";
            for (size_t i = 0; i < c.l1.size(); i++) summary += (i ? "," : "") + std::to_string(c.l1[i]);
            summary += "] io=" + std::to_string(c.io_density) + " ops=" + std::to_string(c.ops.size()) + (nt ? " NT: " : ": ");
            for (size_t i = 0; i < r.trace.size() && summary.size() < 900; i++) summary += r.trace[i] + "; ";
        }
        return x;
    });
    if (nt) VR.nontrivial(hash_case(c));
    if (!summary.empty()) VR.sample(summary);
    return o;
}

// ---- spread: N distinct keys of one length, stored by one client, are found by another client, each on exactly one server, and both
// servers get some of them.  For any hash that looks at the key's content the chance that >= 48 random keys all land on one of two
// servers is 2^-47; a function of the key's length alone (or a constant) puts them all on one.
struct SpreadCase {
    int swap = 0; std::vector<std::string> keys;
    void encode(vr::CaseWriter &w) const { w.i(swap).i((long long)keys.size()).nl(); for (auto &k : keys) w.s(k); w.nl(); }
    static SpreadCase decode(vr::CaseReader &r) { SpreadCase c; c.swap = (int)r.i(); long long n = r.i(); for (long long i = 0; i < n; i++) c.keys.push_back(r.s()); return c; }
};
static Outcome p_spread(SpreadCase const &c) {
    VR.eval();
    sset distinct(c.keys.begin(), c.keys.end());
    for (auto &k : c.keys) if (k.empty() || k.find('\0') != std::string::npos || k.size() != c.keys[0].size()) return bad("harness:bad-case", "spread keys must be non-empty, NUL-free, of one length");
    if (distinct.size() < 48) return bad("harness:bad-case", "spread needs >= 48 distinct keys");      // never generated (see gen_spread)
    int per[2] = {0, 0};
    Outcome o = in_thread([&]() -> Outcome {
        g_now = T0; fresh_servers(); io::reset(0, 0, 0);
        std::vector<std::string> ips{"127.0.0.1", "127.0.0.1"}; std::vector<int> ports{g_srv[c.swap ? 1 : 0].port, g_srv[c.swap ? 0 : 1].port};
        cache_ptr a = cppcms::impl::tcp_cache_factory(ips, ports, cppcms::impl::thread_cache_factory(0));
        cache_ptr b = cppcms::impl::tcp_cache_factory(ips, ports, cache_ptr());
        int i = 0;
        for (auto &k : distinct) a->store(k, "v" + std::to_string(i++), sset(), T0 + 100);
        i = 0;
        for (auto &k : distinct) {
            int n = 0, where = -1;
            for (int s = 0; s < 2; s++) if (g_srv[s].cache->fetch(k, 0, 0, 0, 0)) { n++; where = s; }
            V_CHECK(n == 1, "placement:key-not-on-exactly-one-server", vr::show(k, 40) + " is on " + std::to_string(n) + " servers");
            per[where]++;
            std::string v;
            V_CHECK(b->fetch(k, &v, 0, 0, 0) && v == "v" + std::to_string(i), "placement:other-client-does-not-find-key", vr::show(k, 40));
            V_CHECK(a->fetch(k, &v, 0, 0, 0) && v == "v" + std::to_string(i), "placement:storing-client-does-not-find-key", vr::show(k, 40));
            i++;
        }
        return ok();
    });
    if (!o.ok()) return o;
    VR.nontrivial(vr::fnv(c.keys[0], c.keys.size()));
    VR.cls("spread.keylen=" + std::string(c.keys[0].size() < 6 ? "1-5" : c.keys[0].size() < 20 ? "6-19" : "20+"));
    V_CHECK(per[0] > 0 && per[1] > 0, "connector:keys-not-spread",
            std::to_string(distinct.size()) + " distinct keys of length " + std::to_string(c.keys[0].size()) + " all went to one server (" + std::to_string(per[0]) + "/" + std::to_string(per[1]) + ")");
    if (VR.want_sample()) VR.sample("spread: " + std::to_string(distinct.size()) + " keys of length " + std::to_string(c.keys[0].size()) + " -> " + std::to_string(per[0]) + "/" + std::to_string(per[1]));
    return ok();
}


// ---- frames: the server against a peer that does not use cppcms's client.  Every frame is complete at the transport level (header +
// exactly header.size payload bytes) but its opcode and inner length fields are arbitrary.  Oracle (from the header's field semantics,
// private/tcp_cache_protocol.h): a store is accepted iff key_len + data_len + triggers_len == size (as numbers) and key_len != 0, and then
// stores exactly key = payload[0,key_len), value = the next data_len bytes, triggers = the NUL separated rest; anything else is answered
// `error` and changes nothing; fetch/rise take the whole payload as the name; unknown opcodes and the session opcodes (no session storage
// configured) are answered `error`.  After every frame the server-side store is compared with the model (direct inspection) — plus ASan.
struct Frame {
    unsigned opcode = 0; unsigned kl = 0, dl = 0, tl = 0; long long timeout = 0; int flags = 0; int gen_mode = 0; unsigned long long gen = 0;
    std::string payload;
    void encode(vr::CaseWriter &w) const { w.u(opcode).u(kl).u(dl).u(tl).i(timeout).i(flags).i(gen_mode).u(gen).s(payload).nl(); }
    static Frame decode(vr::CaseReader &r) { Frame f; f.opcode = (unsigned)r.u(); f.kl = (unsigned)r.u(); f.dl = (unsigned)r.u(); f.tl = (unsigned)r.u(); f.timeout = r.i(); f.flags = (int)r.i(); f.gen_mode = (int)r.i(); f.gen = r.u(); f.payload = r.s(); return f; }
    bool wraps() const {
        unsigned long long sum = (unsigned long long)kl + dl + tl;
        return opcode == cppcms::impl::opcodes::store && sum != payload.size() && (unsigned)(sum & 0xffffffffu) == (unsigned)payload.size();
    }
};
struct FrameCase {
    int include = 0; int io_density = 0, io_eagain = 0; unsigned long long io_seed = 0;
    std::vector<Frame> frames;
    void encode(vr::CaseWriter &w) const { w.i(include).i(io_density).i(io_eagain).u(io_seed).i((long long)frames.size()).nl(); for (auto &f : frames) f.encode(w); }
    static FrameCase decode(vr::CaseReader &r) { FrameCase c; c.include = (int)r.i(); c.io_density = (int)r.i(); c.io_eagain = (int)r.i(); c.io_seed = r.u(); long long n = r.i(); for (long long i = 0; i < n; i++) c.frames.push_back(Frame::decode(r)); return c; }
};
struct RawConn {
    int fd = -1;
    bool open(int port) {
        fd = socket(AF_INET, SOCK_STREAM, 0);
        sockaddr_in a{}; a.sin_family = AF_INET; a.sin_addr.s_addr = htonl(INADDR_LOOPBACK); a.sin_port = htons(port);
        struct timeval tv; tv.tv_sec = 300; tv.tv_usec = 0;
        setsockopt(fd, SOL_SOCKET, SO_RCVTIMEO, &tv, sizeof tv);
        int one = 1; setsockopt(fd, IPPROTO_TCP, TCP_NODELAY, &one, sizeof one);
        return fd >= 0 && connect(fd, (sockaddr *)&a, sizeof a) == 0;
    }
    ~RawConn() { if (fd >= 0) close(fd); }
    bool send_all(const void *p, size_t n) { const char *c = (const char *)p; while (n) { ssize_t r = ::send(fd, c, n, MSG_NOSIGNAL); if (r <= 0) return false; c += r; n -= (size_t)r; } return true; }
    int recv_all(void *p, size_t n) { char *c = (char *)p; while (n) { ssize_t r = ::recv(fd, c, n, 0); if (r == 0) return 0; if (r < 0) return (errno == EAGAIN || errno == EWOULDBLOCK) ? -2 : -1; c += r; n -= (size_t)r; } return 1; }
};
// The service threads run with every signal blocked (tcp_cache_service blocks them around thread creation), so a wild read there kills the
// process without any handler or sanitizer report.  During the random search the frame sequence about to be sent is therefore saved first and
// named in the report: the driver turns "died without recording a failure" into a failure that replays from this file.
static bool g_note_cases = false;
static std::string g_noted_path;
static void note_frames_case(FrameCase const &c) {
    if (!g_note_cases) return;
    if (g_noted_path.empty()) {
        std::string unit = vr::env("VERIF_UNIT", "unit");
        for (auto &ch : unit) if (ch == '/' || ch == ' ') ch = '_';
        g_noted_path = VR.replay_dir() + "/crash-" + unit + "-frames-s" + std::to_string(vr::seed()) + ".case";
    }
    vr::CaseWriter w; w.w("frames").nl(); c.encode(w);
    vr::write_file(g_noted_path, w.str());
    VR.current_case = g_noted_path;
    VR.flush();
}
static Outcome p_frames(FrameCase const &c) {
    using namespace cppcms::impl;
    VR.eval();
    note_frames_case(c);
    g_now = T0; fresh_servers();
    io::reset((unsigned)c.io_density, (unsigned)c.io_eagain, c.io_seed);
    struct Done { ~Done() { io::density = 0; g_case_started = 0; } } done_guard;
    g_case_started = mono_s();
    RawConn conn;
    if (!conn.open(g_srv[0].port)) return bad("harness:connect", "cannot connect to the cache server");
    Model M; bool nt = false; std::string trace;
    cache_ptr direct(g_srv[0].cache.get());
    int idx = 0;
    for (auto const &f : c.frames) {
        idx++;
        if (f.wraps() && !(c.include & INC_FRAMEWRAP)) { VR.excl("store-frame-lengths-wrap-32-bits"); continue; }
        tcp_operation_header h; memset(&h, 0, sizeof h);
        h.opcode = f.opcode; h.size = (uint32_t)f.payload.size();
        uint64_t cur_gen = 0; bool have_gen = direct->fetch(f.payload, 0, 0, 0, &cur_gen);
        uint64_t sent_gen = f.gen_mode == 1 && have_gen ? cur_gen : f.gen;
        switch (f.opcode) {
        case opcodes::fetch: h.operations.fetch.current_gen = sent_gen; h.operations.fetch.key_len = f.kl; h.operations.fetch.transfer_triggers = f.flags & 1; h.operations.fetch.transfer_if_not_uptodate = (f.flags >> 1) & 1; break;
        case opcodes::rise: h.operations.rise.trigger_len = f.kl; break;
        case opcodes::store: default: h.operations.store.timeout = T0 + f.timeout; h.operations.store.key_len = f.kl; h.operations.store.data_len = f.dl; h.operations.store.triggers_len = f.tl; break;
        }
        std::string what = "frame " + std::to_string(idx) + " {" + opcodes::to_name((int)f.opcode) + "(" + std::to_string(f.opcode) + ") size=" + std::to_string(f.payload.size()) + " key_len=" + std::to_string(f.kl) + " data_len=" + std::to_string(f.dl) +
                           " triggers_len=" + std::to_string(f.tl) + " payload=" + vr::show(f.payload, 48) + "}";
        trace += what + "; ";
        std::string wire((const char *)&h, sizeof h); wire += f.payload;      // one send: no Nagle / delayed-ACK stall between header and payload
        if (!conn.send_all(wire.data(), wire.size())) return bad("frames:connection-lost", "the server closed the connection before " + what);
        tcp_operation_header r; memset(&r, 0, sizeof r);
        int got = conn.recv_all(&r, sizeof r);
        if (got == -2) { VR.inconclusive++; return ok(); }
        if (got != 1) return bad("frames:no-reply", "no reply / connection closed after " + what + " || " + trace);
        if (r.size > (1u << 24)) return bad("frames:reply-size-absurd", what);
        std::string body(r.size, '\0');
        if (r.size) { got = conn.recv_all(&body[0], r.size); if (got == -2) { VR.inconclusive++; return ok(); } if (got != 1) return bad("frames:no-reply", "reply payload missing after " + what); }
        long long now = g_now.load();
        auto expect_op = [&](unsigned op, const char *sig) -> Outcome {
            if (r.opcode != op) return bad(sig, what + " answered " + opcodes::to_name((int)r.opcode) + "(" + std::to_string(r.opcode) + "), expected " + opcodes::to_name((int)op) + " || " + trace);
            return ok();
        };
        Outcome o = ok();
        // fetch/rise/clear/stats frames whose unused length field or payload is odd: a server that refuses them (error, nothing changed) is as
        // acceptable as one that ignores the oddity; what it must not do is anything else
        bool odd = ((f.opcode == opcodes::fetch || f.opcode == opcodes::rise) && f.kl != f.payload.size()) || ((f.opcode == opcodes::clear || f.opcode == opcodes::stats) && !f.payload.empty());
        bool refused = odd && r.opcode == opcodes::error;
        if (odd) VR.cls(refused ? "frames.odd_frame_refused" : "frames.odd_frame_served");
        if (!refused) switch (f.opcode) {
        case opcodes::store: {
            unsigned long long sum = (unsigned long long)f.kl + f.dl + f.tl;
            bool valid = sum == f.payload.size() && f.kl != 0;
            if (!valid) { VR.cls(f.wraps() ? "frames.store_lengths_wrap" : "frames.store_lengths_lie"); nt = true; o = expect_op(opcodes::error, "server:store-frame-with-wrong-lengths-accepted"); break; }
            std::string key = f.payload.substr(0, f.kl), val = f.payload.substr(f.kl, f.dl), tr = f.payload.substr(f.kl + f.dl);
            sset t; bool terminated = tr.empty() || tr.back() == '\0';
            for (size_t p = 0; p < tr.size();) { size_t e = tr.find('\0', p); if (e == std::string::npos) e = tr.size(); t.insert(tr.substr(p, e - p)); p = e + 1; }
            if (!terminated && r.opcode == opcodes::error) { VR.cls("frames.store_unterminated_trigger_refused"); break; }   // either answer is acceptable
            VR.cls(terminated ? "frames.store_valid" : "frames.store_unterminated_trigger_accepted");
            o = expect_op(opcodes::done, "server:valid-store-frame-refused");
            M.store(-1, key, val, t, T0 + f.timeout);
            break; }
        case opcodes::fetch: {
            Entry const *e = M.live(f.payload, now);
            if (!e) { VR.cls("frames.fetch_miss"); o = expect_op(opcodes::no_data, "server:fetch-frame-wrong-answer"); break; }
            if ((f.flags & 2) && sent_gen == cur_gen) { VR.cls("frames.fetch_uptodate"); o = expect_op(opcodes::uptodate, "server:fetch-frame-wrong-answer"); if (o.ok() && r.size) o = bad("server:fetch-frame-wrong-answer", "uptodate with payload"); break; }
            VR.cls("frames.fetch_data");
            o = expect_op(opcodes::data, "server:fetch-frame-wrong-answer");
            if (!o.ok()) break;
            std::string exp = e->val; if (f.flags & 1) for (auto &t : e->trig) { exp += t; exp += '\0'; }
            if (r.operations.data.data_len != e->val.size() || r.operations.data.triggers_len != exp.size() - e->val.size() || body != exp || (long long)r.operations.data.timeout != e->deadline || r.operations.data.generation != cur_gen)
                o = bad("server:fetch-frame-wrong-data", what + " reply data_len=" + std::to_string(r.operations.data.data_len) + " triggers_len=" + std::to_string(r.operations.data.triggers_len) + " body=" + vr::show(body, 60) + " expected " + vr::show(exp, 60) + " || " + trace);
            break; }
        case opcodes::rise: VR.cls("frames.rise"); o = expect_op(opcodes::done, "server:rise-frame-wrong-answer"); M.rise(-1, f.payload); break;
        case opcodes::clear: VR.cls("frames.clear"); o = expect_op(opcodes::done, "server:clear-frame-wrong-answer"); M.clear(-1); break;
        case opcodes::stats:
            VR.cls("frames.stats"); o = expect_op(opcodes::out_stats, "server:stats-frame-wrong-answer");
            if (o.ok() && (r.operations.out_stats.keys != M.keys() || r.operations.out_stats.triggers != M.triggers())) o = bad("stats:differs", what + " || " + trace);
            break;
        default: VR.cls(f.opcode >= opcodes::session_save && f.opcode <= opcodes::session_remove ? "frames.session_opcode_without_storage" : "frames.unknown_opcode"); o = expect_op(opcodes::error, "server:unknown-opcode-not-refused"); break;
        }
        if (!o.ok()) return o;
        // the server-side store equals the model after every frame
        unsigned k = 0, t = 0; direct->stats(k, t);
        if (k != M.keys() || t != M.triggers()) return bad("server:store-state-differs-after-frame", "after " + what + " the server holds " + std::to_string(k) + " keys/" + std::to_string(t) + " triggers, model " + std::to_string(M.keys()) + "/" + std::to_string(M.triggers()) + " || " + trace);
        for (auto &kv : M.m) {
            std::string v; sset tg; time_t to = 0;
            bool live = kv.second.deadline >= now;
            bool hit = direct->fetch(kv.first, &v, &tg, &to, 0);
            if (hit != live || (hit && (v != kv.second.val || tg != kv.second.trig || (long long)to != kv.second.deadline)))
                return bad("server:store-state-differs-after-frame", "after " + what + " entry " + vr::show(kv.first, 30) + " is " + (hit ? "value " + vr::show(v, 30) + " triggers " + show_set(tg) : "absent") + ", model value " + vr::show(kv.second.val, 30) + " triggers " + show_set(kv.second.trig) + " || " + trace);
        }
    }
    if (nt) { vr::CaseWriter w; c.encode(w); VR.nontrivial(vr::fnv(w.str())); }
    if (VR.want_sample()) VR.sample("frames: " + trace.substr(0, 700));
    return ok();
}
static rc::Gen<FrameCase> gen_frames(int inc) {
    return rc::gen::exec([inc] {
        using namespace cppcms::impl;
        FrameCase c; c.include = inc;
        c.io_density = *rc::gen::weightedElement<int>({{3, 0}, {2, 2}, {2, 7}, {1, 40}});
        c.io_eagain = c.io_density ? *vr::range<int>(0, 2) : 0;
        c.io_seed = *rc::gen::arbitrary<uint32_t>();
        std::vector<std::string> keys{"a", "b", std::string("k\0x", 3), "a-long-key-name-beyond-the-small-string-buffer", "\xff\x01"};
        std::vector<std::string> trigs{"t", "u", "a", "", "trigger-name-longer-than-the-sso-buffer"};
        auto weird = rc::gen::elementOf(std::vector<unsigned>{0u, 1u, 2u, 0x7fffffffu, 0x80000000u, 0xfffffffeu, 0xffffffffu, 40u, 0x10000u});
        int n = *vr::range<int>(1, 14);
        std::vector<std::string> stored;
        for (int i = 0; i < n; i++) {
            Frame f;
            int kind = *rc::gen::weightedElement<int>({{50, 3}, {20, 0}, {8, 1}, {3, 2}, {5, 4}, {14, 99}});
            f.opcode = kind == 99 ? *rc::gen::weightedOneOf<unsigned>({{3, vr::range<unsigned>(5, 15)}, {1, rc::gen::elementOf(std::vector<unsigned>{15u, 16u, 255u, 0x80000000u, 0xffffffffu})}}) : (unsigned)kind;
            std::string key = *rc::gen::elementOf(keys);
            if (!stored.empty() && f.opcode != opcodes::store && *vr::range<int>(0, 10) < 7) key = *rc::gen::elementOf(stored);
            if (f.opcode == opcodes::store) {
                stored.push_back(key);
                std::string val = value_of(*vr::range<int>(0, 1000), *rc::gen::weightedElement<int>({{2, 0}, {4, 3}, {2, 40}, {1, 300}}));
                std::string tr; int nt = *rc::gen::weightedElement<int>({{3, 0}, {4, 1}, {2, 2}, {1, 5}});
                for (int j = 0; j < nt; j++) { tr += *rc::gen::elementOf(trigs); tr += '\0'; }
                f.kl = (unsigned)key.size(); f.dl = (unsigned)val.size(); f.tl = (unsigned)tr.size();
                f.payload = key + val + tr;
                f.timeout = *rc::gen::weightedElement<long long>({{1, -1}, {1, 0}, {6, 1000}});
                int lie = *rc::gen::weightedElement<int>({{10, 0}, {2, 1}, {2, 2}, {2, 3}, {2, 4}, {2, 5}, {2, 6}, {2, 7}, {2, 8}});
                switch (lie) {
                case 1: f.kl += *rc::gen::elementOf(std::vector<unsigned>{1u, 0xffffffffu, 2u}); break;
                case 2: f.dl += *rc::gen::elementOf(std::vector<unsigned>{1u, 0xffffffffu, 7u}); break;
                case 3: f.tl += *rc::gen::elementOf(std::vector<unsigned>{1u, 0xffffffffu, 3u}); break;
                case 4: f.kl = 0; f.dl += (unsigned)key.size(); break;                            // empty key, sum still right
                case 5: if (!f.payload.empty()) f.payload.pop_back(); break;                      // payload one byte short (a valid store only if it ended in a trigger's NUL... then tl lies)
                case 6: f.payload += *rc::gen::elementOf(std::vector<std::string>{"x", std::string(1, '\0'), "xy"}); break;
                case 7: { unsigned w = *weird; int which = *vr::range<int>(0, 3); (which == 0 ? f.kl : which == 1 ? f.dl : f.tl) = w; break; }
                case 8: {   // lengths whose 32-bit sum equals the frame size although the fields are far too large
                    unsigned size = (unsigned)f.payload.size(); unsigned a = *weird; if (a == 0) a = 0xffffffffu;
                    f.kl = a; f.dl = *vr::range<unsigned>(0, 4); f.tl = size - f.kl - f.dl; break; }
                default: if (!tr.empty() && *vr::range<int>(0, 8) == 0) { f.payload.pop_back(); f.tl--; } break;   // honest, last trigger not NUL-terminated
                }
            } else if (f.opcode == opcodes::fetch) {
                f.payload = key; f.kl = *vr::range<int>(0, 3) ? (unsigned)key.size() : *weird;
                f.flags = *vr::range<int>(0, 4); f.gen_mode = *vr::range<int>(0, 2); f.gen = *rc::gen::elementOf(std::vector<unsigned long long>{0ull, 1ull, 2ull, 5ull, ~0ull});
            } else if (f.opcode == opcodes::rise) {
                f.payload = *vr::range<int>(0, 2) ? *rc::gen::elementOf(trigs) : key; f.kl = *vr::range<int>(0, 3) ? (unsigned)f.payload.size() : *weird;
            } else {
                f.payload = *rc::gen::elementOf(std::vector<std::string>{"", "", "x", std::string(32, 's'), std::string(40, '\0')});
                f.kl = *weird; f.dl = *weird; f.tl = *weird;
            }
            c.frames.push_back(f);
        }
        return c;
    });
}

// ------------------------------------------------------------------------------------------------ generators
static rc::Gen<std::string> gen_name() {
    auto nz = rc::gen::map(vr::range<int>(1, 256), [](int c) { return (unsigned char)c; });
    auto rnd = [nz](int lo, int hi) {
        return rc::gen::mapcat(vr::range<int>(lo, hi + 1), [nz](int n) {
            return rc::gen::map(rc::gen::container<std::vector<unsigned char>>(n, nz), [](std::vector<unsigned char> v) { return std::string(v.begin(), v.end()); });
        });
    };
    return rc::gen::weightedOneOf<std::string>({
        {5, rc::gen::elementOf(std::vector<std::string>{"a", "b", "c", "t", "u", "ab", "k1", "k2"})},
        {2, rc::gen::elementOf(std::vector<std::string>{"a-long-key-name-beyond-the-small-string-buffer", "_U:a", "_Z:a", "a\xff\x80", " ", "\x01", "\xff"})},
        {3, rnd(1, 12)},
        {1, rnd(13, 80)},
        {1, rnd(200, 600)}});
}

static rc::Gen<Case> gen_case(int max_ops, int inc) {
    return rc::gen::exec([max_ops, inc] {
        Case c;
        c.include = inc;
        c.nserv = *rc::gen::weightedElement<int>({{2, 1}, {3, 2}});
        c.swap = *vr::range<int>(0, 2);
        int ncl = *rc::gen::weightedElement<int>({{3, 2}, {2, 3}});
        for (int i = 0; i < ncl; i++) c.l1.push_back(*rc::gen::weightedElement<int>({{2, -1}, {5, 0}, {1, 1}, {1, 2}, {1, 3}}));
        bool any = false; for (int x : c.l1) any = any || x >= 0;
        if (!any) c.l1[*vr::range<int>(0, ncl)] = 0;           // at least one node with an L1 (the all-plain configuration is the 1-in-50 below)
        if (*vr::range<int>(0, 50) == 0) for (auto &x : c.l1) x = -1;
        c.io_density = *rc::gen::weightedElement<int>({{3, 0}, {2, 2}, {2, 7}, {2, 40}, {1, 400}});
        c.io_eagain = c.io_density ? *vr::range<int>(0, 2) : 0;
        c.io_seed = *rc::gen::arbitrary<uint32_t>();
        c.nkeys = *rc::gen::weightedElement<int>({{2, 1}, {4, 2}, {3, 3}, {1, 5}});
        int ntr = *vr::range<int>(1, 5);
        sset seen;
        for (int i = 0; i < c.nkeys + ntr; i++) {
            std::string n = *gen_name();
            if (i >= c.nkeys && *vr::range<int>(0, 8) == 0) n = "";              // the empty trigger name (never a key)
            while (seen.count(n) || (i < c.nkeys && n.empty())) n += char('0' + i);
            seen.insert(n);
            c.names.push_back(n);
        }
        int nall = (int)c.names.size();
        int nops = *vr::range<int>(1, max_ops + 1);
        bool big_allowed = c.io_density == 0 || c.io_density >= 40;
        for (int i = 0; i < nops; i++) {
            Op o;
            o.kind = *rc::gen::weightedElement<int>({{30, (int)STORE}, {42, (int)FETCH}, {10, (int)RISE}, {3, (int)CLEAR}, {5, (int)STATS}, {8, (int)TICK}});
            o.client = *vr::range<int>(0, ncl);
            switch (o.kind) {
            case STORE: {
                o.name = *vr::range<int>(0, c.nkeys);
                int cls = *rc::gen::weightedElement<int>({{2, 0}, {5, 1}, {4, 2}, {2, 3}, {1, 4}});
                o.vlen = cls == 0 ? 0 : cls == 1 ? *vr::range<int>(1, 17) : cls == 2 ? *vr::range<int>(17, 400) : cls == 3 ? *vr::range<int>(1000, 6000)
                         : (big_allowed ? *vr::range<int>(60000, 140000) : *vr::range<int>(2000, 4000));
                o.vseed = *vr::range<int>(0, 1000000);
                int tc = *rc::gen::weightedElement<int>({{3, 0}, {4, 1}, {3, 2}, {1, 4}, {1, 99}});
                if (tc == 99) { int n = *vr::range<int>(40, 260), base = 1000 + *vr::range<int>(0, 50); for (int j = 0; j < n; j++) o.trigs.push_back(base + j); tc = *vr::range<int>(0, 3); }
                for (int j = 0; j < tc; j++) o.trigs.push_back(*vr::range<int>(0, nall));
                if (*vr::range<int>(0, 12) == 0) {          // exotic absolute deadlines: must survive the 64-bit wire field
                    o.mode = 1;
                    o.dl = *rc::gen::elementOf(std::vector<long long>{0, -5, (long long)T0, (long long)T0 + 1, 2147483647LL, 2147483648LL, 4294967301LL, 1LL << 40, 1LL << 62,
                                                                     std::numeric_limits<long long>::max(), std::numeric_limits<long long>::max() - 1});
                } else o.dl = *rc::gen::weightedElement<long long>({{1, -1}, {2, 0}, {2, 1}, {2, 2}, {2, 5}, {8, FAR}});
                break; }
            case FETCH:
                o.name = *vr::range<int>(0, c.nkeys);
                o.mode = *rc::gen::weightedElement<int>({{7, 0}, {2, 1}, {1, 2}});
                break;
            case RISE:
                o.name = *rc::gen::weightedOneOf<int>({{8, vr::range<int>(0, nall)}, {1, vr::range<int>(1000, 1300)}});
                break;
            case TICK:
                o.dl = *rc::gen::weightedElement<long long>({{4, 1}, {2, 2}, {1, 3}, {1, 10}, {1, 2000}});
                break;
            default: break;
            }
            c.ops.push_back(o);
        }
        return c;
    });
}

static rc::Gen<SpreadCase> gen_spread() {
    // keys are derived from a generated seed with a fixed mixer: whatever the shrinker does to the seed they stay distinct and random-looking
    return rc::gen::exec([] {
        SpreadCase c;
        c.swap = *vr::range<int>(0, 2);
        int len = *rc::gen::weightedOneOf<int>({{3, vr::range<int>(1, 6)}, {3, vr::range<int>(6, 20)}, {1, vr::range<int>(20, 200)}});
        int n = *vr::range<int>(56, 80);
        uint64_t seed = *rc::gen::arbitrary<uint32_t>();
        sset seen; uint64_t ctr = 0;
        while ((int)seen.size() < n) {
            std::string k((size_t)len, '\0');
            for (int j = 0; j < len; j++) k[j] = char(1 + io::mix(seed, ctr, (uint64_t)j) % 255);
            ctr++;
            if (seen.insert(k).second) c.keys.push_back(k);
        }
        return c;
    });
}

int main(int argc, char **argv) {
    // --regress FILE (regression case of a finding as part of a normal run) executes in a child: a case that makes the sanitizer abort the
    // process still gets the signature of its class
    const char *regress = nullptr;
    for (int i = 1; i + 1 < argc; i++) if (!strcmp(argv[i], "--regress")) regress = argv[i + 1];
    if (regress) {
        fflush(0);
        pid_t pid = fork();
        if (pid > 0) {
            int st = 0; waitpid(pid, &st, 0);
            if (WIFEXITED(st) && (WEXITSTATUS(st) == 0 || WEXITSTATUS(st) == 1)) return WEXITSTATUS(st);      // the child wrote the report
            std::string sig = "crash:regression";
            try {
                vr::CaseReader rd(vr::read_file(regress));
                std::string pname = rd.w(); sig += ":" + pname;
                if (pname == "frames") { FrameCase fc = FrameCase::decode(rd); for (auto &f : fc.frames) if (f.wraps()) sig = "server:store-frame-length-wraparound"; }
            } catch (std::exception const &) {}
            VR.eval(); VR.cls("regression-cases");
            VR.failures.push_back({sig, regress, "the process running this regression case died (sanitizer report / signal), wait status " + std::to_string(st)});
            VR.finish();
            return 1;
        }
    }
    start_servers();
    start_watchdog();
    int max_ops = (int)vr::envl("C10_MAX_OPS", vr::thorough() ? 70 : 40);
    std::vector<std::unique_ptr<vr::PropBase>> props;
    props.push_back(vr::prop<Case>("history", gen_case(max_ops, include_mask()), p_history));
    props.push_back(vr::prop<SpreadCase>("spread", gen_spread(), p_spread));
    props.push_back(vr::prop<FrameCase>("frames", gen_frames(include_mask()), p_frames));
    // --regress FILE: run one saved case as part of a normal run (known-finding regression); a failure is recorded with the file itself as replay
    for (int i = 1; i + 1 < argc; i++) if (!strcmp(argv[i], "--regress")) {
        vr::CaseReader rd(vr::read_file(argv[i + 1]));
        std::string pname = rd.w();
        Outcome o = bad("harness:unknown-property", pname);
        for (auto &p : props) if (p->name == pname) o = p->replay(rd);
        VR.cls("regression-cases");
        if (!o.ok()) VR.failures.push_back({o.sig, argv[i + 1], o.msg});
        VR.finish();
        for (int k = 0; k < 2; k++) g_srv[k].srv.reset();
        return o.ok() ? 0 : 1;
    }
    g_note_cases = !vr::replay_arg(argc, argv);
    int r = vr::rc_main(argc, argv, props);
    if (!g_noted_path.empty()) { unlink(g_noted_path.c_str()); VR.current_case.clear(); }
    VR.cls("io.short_reads_imposed", io::short_reads.load());
    VR.cls("io.short_writes_imposed", io::short_writes.load());
    VR.cls("io.eagain_injected", io::eagains.load());
    VR.finish();
    for (int i = 0; i < 2; i++) g_srv[i].srv.reset();
    return r;
}
