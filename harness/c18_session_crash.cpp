// C18 — a crash while saving a file-backed session never yields a corrupted session.
//
// A case is a history of save / load / remove / gc / clock-tick / plant-garbage operations on
// sessions::session_file_storage over a scratch directory.  write() is interposed at link time (--wrap=write): for
// every save the harness records the write() calls (offset, bytes) and, from the file image before the save, builds
// every crash state of that save:
//   F1  every prefix of the sequence of write() calls (plus "file not even created" / "created, nothing written"),
//   F2  every byte-prefix of every write (the cut never falls strictly inside the 16-byte header, which is atomic),
//   F3  every assignment "512-byte sector s holds its content as of after write j" for the sectors the save touched,
//       combined with every file length the file had during the save (length metadata and data reach the disk
//       independently; missing bytes are zero or stale filler) — exhaustive up to a limit, sampled + all
//       single-sector tears beyond.
// Each crash image is put into a second directory and loaded through a *fresh* storage object (optionally after gc()).
// Oracle (logical model, independent of the file format): the load reports "no session" and the file is gone, or
// returns exactly one (deadline, value) pair of a save of this session's history (the in-flight one included), never an
// expired one, never modifying the file; the complete old / new image must load when its deadline is in the future.
// gc(): files whose first 8 bytes are missing or a past time stamp must disappear, complete live records must stay.
// Planted garbage files are judged by an independent re-implementation of the record format (own CRC-32).
// time() is wrapped too (virtual clock).
#include "vrc.h"
#include "session_posix_file_storage.h"
#include <cppcms/cppcms_error.h>
#include <sys/types.h>
#include <sys/stat.h>
#include <fcntl.h>
#include <dirent.h>
#include <unistd.h>
#include <algorithm>
#include <random>

using vr::Outcome; using vr::ok; using vr::bad;
using namespace cppcms::sessions;

// ---- interposition --------------------------------------------------------------------------------------------
static long long g_now = 1500000000LL;
extern "C" time_t __wrap_time(time_t *t) { if (t) *t = (time_t)g_now; return (time_t)g_now; }

struct WRec { long long off; std::string bytes; };
static bool g_rec = false;
static std::vector<WRec> g_writes;
extern "C" ssize_t __real_write(int, const void *, size_t);
extern "C" ssize_t __wrap_write(int fd, const void *b, size_t n) {
    if (!g_rec) return __real_write(fd, b, n);
    struct stat st;
    bool reg = fstat(fd, &st) == 0 && S_ISREG(st.st_mode);
    off_t o = reg ? lseek(fd, 0, SEEK_CUR) : -1;
    ssize_t r = __real_write(fd, b, n);
    if (reg && r > 0) g_writes.push_back({(long long)o, std::string((const char *)b, (size_t)r)});
    return r;
}

// ---- independent reference: CRC-32 (IEEE, reflected, bitwise table built here) and the record format -------------
static uint32_t my_crc32(const char *p, size_t n) {
    static uint32_t T[256]; static bool init = false;
    if (!init) { for (uint32_t i = 0; i < 256; i++) { uint32_t c = i; for (int k = 0; k < 8; k++) c = (c & 1) ? 0xEDB88320u ^ (c >> 1) : c >> 1; T[i] = c; } init = true; }
    uint32_t c = 0xFFFFFFFFu;
    for (size_t i = 0; i < n; i++) c = T[(c ^ (unsigned char)p[i]) & 255] ^ (c >> 8);
    return c ^ 0xFFFFFFFFu;
}
struct Rec { long long d; std::string p; };
static std::string make_header(long long d, uint32_t crc, uint32_t size) {
    std::string h(16, '\0'); int64_t dd = d; memcpy(&h[0], &dd, 8); memcpy(&h[8], &crc, 4); memcpy(&h[12], &size, 4); return h;
}
// is the image a self-consistent record (regardless of the clock)?
static bool ref_parse(std::string const &img, Rec &r) {
    if (img.size() < 16) return false;
    int64_t d; uint32_t crc, size; memcpy(&d, &img[0], 8); memcpy(&crc, &img[8], 4); memcpy(&size, &img[12], 4);
    if (img.size() - 16 < size) return false;
    if (my_crc32(img.data() + 16, size) != crc) return false;
    r.d = d; r.p = img.substr(16, size); return true;
}

// ---- plain file helpers (never through the code under test) ---------------------------------------------------------
static bool read_img(std::string const &path, std::string &out) {
    out.clear();
    int fd = ::open(path.c_str(), O_RDONLY);
    if (fd < 0) return false;
    char buf[65536]; ssize_t n;
    while ((n = ::read(fd, buf, sizeof buf)) > 0) out.append(buf, (size_t)n);
    ::close(fd); return true;
}
static void put_img(std::string const &path, std::string const &d) {
    int fd = ::open(path.c_str(), O_WRONLY | O_CREAT | O_TRUNC, 0666);
    if (fd < 0) throw std::runtime_error("harness: cannot create " + path);
    size_t off = 0;
    while (off < d.size()) { ssize_t n = __real_write(fd, d.data() + off, d.size() - off); if (n <= 0) { ::close(fd); throw std::runtime_error("harness: write failed " + path); } off += (size_t)n; }
    ::close(fd);
}
static void wipe_dir(std::string const &dir) {
    ::mkdir(dir.c_str(), 0777);
    DIR *d = opendir(dir.c_str()); if (!d) throw std::runtime_error("harness: cannot open " + dir);
    std::vector<std::string> names;
    while (dirent *e = readdir(d)) { std::string n = e->d_name; if (n != "." && n != "..") names.push_back(n); }
    closedir(d);
    for (auto &n : names) ::unlink((dir + "/" + n).c_str());
}

// ---- the case ------------------------------------------------------------------------------------------------------------
enum { SAVE = 0, LOAD = 1, REMOVE = 2, GC = 3, TICK = 4, PLANT = 5 };
struct Op {
    int kind = 0, sid = 0; long long dl = 0; int a = 0, b = 0, c = -1; std::string data;
};
struct HCase {
    int mode = 0, conc = 5, fill = 0, gc_every = 0; unsigned seed = 1;
    std::vector<Op> ops;
    void encode(vr::CaseWriter &w) const {
        w.i(mode).i(conc).i(fill).i(gc_every).u(seed).i((long long)ops.size()).nl();
        for (auto &o : ops) w.i(o.kind).i(o.sid).i(o.dl).i(o.a).i(o.b).i(o.c).s(o.data).nl();
    }
    static HCase decode(vr::CaseReader &r) {
        HCase c; c.mode = (int)r.i(); c.conc = (int)r.i(); c.fill = (int)r.i(); c.gc_every = (int)r.i(); c.seed = (unsigned)r.u();
        long long n = r.i();
        for (long long i = 0; i < n; i++) { Op o; o.kind = (int)r.i(); o.sid = (int)r.i(); o.dl = r.i(); o.a = (int)r.i(); o.b = (int)r.i(); o.c = (int)r.i(); o.data = r.s(); c.ops.push_back(o); }
        return c;
    }
};
static const char *SIDS[4] = {"0a1b2c3d4e5f60718293a4b5c6d7e8f9", "ffee0123456789abcdef0123456789ab", "1234000000000000000000000000000f", "9c9c9c9c9c9c9c9c9c9c9c9c9c9c9c9c"};

// deterministic payload content; kinds chosen so that CRC edge cases (all zero, low entropy, text) occur and so that two payloads of the
// same base are prefixes of each other
static std::string synth(unsigned base, size_t n) {
    std::string s(n, '\0');
    uint32_t x = base * 2654435761u + 12345u;
    switch (base & 3) {
    case 0: for (size_t i = 0; i < n; i++) { x = x * 1664525u + 1013904223u; s[i] = char(x >> 24); } break;
    case 1: break;                                   // all zero bytes
    case 2: { static const char t[] = "user=alice;cart=1,2,3;_t=3600;"; for (size_t i = 0; i < n; i++) s[i] = t[(i + base) % (sizeof t - 1)]; } break;
    case 3: for (size_t i = 0; i < n; i++) { x = x * 1664525u + 1013904223u; s[i] = char((x >> 24) & 1); } break;
    }
    return s;
}
static unsigned char fill_byte(HCase const &c, size_t pos) {
    if (c.fill == 0) return 0;
    // stale-block filler.  The two high bytes of a would-be size field stay 0: see DESIGN.md section 6 item 8 (a header with a huge
    // size field makes load() allocate that much); that class is excluded here by construction.
    if (pos == 14 || pos == 15) return 0;
    uint32_t x = (uint32_t)pos * 2246822519u + c.seed * 3266489917u; x ^= x >> 15; x *= 2654435761u; x ^= x >> 13;
    return (unsigned char)(x >> 8);
}

// ---- model & context ---------------------------------------------------------------------------------------------------
struct SidModel { int state = 0; /*0 absent 1 record 2 planted*/ Rec cur; std::vector<Rec> hist; };
struct Stats { long long states = 0, torn = 0, rejected = 0, acc_old = 0, acc_new = 0, acc_other = 0, gc_runs = 0; };
struct Ctx {
    HCase const *c; std::string main_dir, crash_dir; int procs; bool flock;
    SidModel m[4];
    Stats total;
};
static bool rec_in(std::vector<Rec> const &v, long long d, std::string const &p) { for (auto &r : v) if (r.d == d && r.p == p) return true; return false; }
static std::string rec_str(long long d, std::string const &p) { return "(deadline now" + std::string(d - g_now >= 0 ? "+" : "") + std::to_string(d - g_now) + ", " + std::to_string(p.size()) + "B " + vr::show(p, 40) + ")"; }

enum Kind { K_NEW, K_OLD, K_TORN, K_GARBAGE, K_ABSENT };

// gc oracle for one file
static Outcome check_gc_file(std::string const &img, bool after_present, std::string const &after, bool intact_live, std::string const &what) {
    int64_t stamp = 0; bool readable = img.size() >= 8;
    if (readable) memcpy(&stamp, img.data(), 8);
    if (!readable || stamp < g_now)
        V_CHECK(!after_present, "gc:expired-or-unreadable-file-kept", what + ": gc() left a file whose time stamp is " + (readable ? "past (now" + std::to_string((long long)stamp - g_now) + ")" : "unreadable (" + std::to_string(img.size()) + " bytes)"));
    else if (intact_live)
        V_CHECK(after_present, "gc:live-session-removed", what + ": gc() removed a complete record whose deadline is now+" + std::to_string((long long)stamp - g_now));
    if (after_present) V_CHECK(after == img, "gc:file-modified", what + ": gc() changed the bytes of a file");
    return ok();
}

// load `sid` from `dir` through a fresh storage object and judge the answer.  `img`: bytes currently in the file (if present).
static Outcome check_load(Ctx &x, std::string const &dir, std::string const &sid, bool present, std::string const &img, std::vector<Rec> const &allowed,
                          Rec const *must, Kind kind, std::string const &what, Stats *st = nullptr, bool run_gc = false, int *answer = nullptr) {
    std::string path = dir + "/" + sid;
    session_file_storage_factory f(dir, x.c->conc, x.procs, x.flock);
    bool here = present;
    if (run_gc && present) {
        try { f.gc_job(); } catch (std::exception const &e) { return bad("gc:exception", what + ": gc() threw " + e.what()); }
        std::string after; bool ap = read_img(path, after);
        Outcome o = check_gc_file(img, ap, after, must && must->d > g_now, what);
        if (!o.ok()) return o;
        here = ap;
        if (st) st->gc_runs++;
    }
    VR.eval();
    booster::shared_ptr<session_storage> s = f.get();
    time_t t = (time_t)0x5a5a5a5a; std::string out = "stale-content-of-the-caller's-string";
    bool r;
    try { r = s->load(sid, t, out); } catch (std::exception const &e) { return bad("load:exception", what + ": load() threw " + e.what()); }
    if (answer) *answer = r ? 1 : 0;
    if (!r) {
        V_CHECK(::access(path.c_str(), F_OK) != 0, "load:rejected-file-not-removed", what + ": load() reported no session but left the file in place");
        if (must && must->d > g_now && here)
            return bad(kind == K_NEW ? "load:complete-new-record-rejected" : "load:complete-live-record-rejected", what + ": the file holds the complete record " + rec_str(must->d, must->p) + " but load() reported no session");
        return ok();
    }
    std::string after; bool still = read_img(path, after);
    V_CHECK(here, "load:absent-file-loaded", what + ": load() succeeded though no file exists");
    bool in = rec_in(allowed, (long long)t, out) || (must && must->d == (long long)t && must->p == out);
    if (!in) {
        const char *sig = kind == K_TORN ? "crash:torn-state-accepted" : kind == K_GARBAGE ? "load:garbage-accepted" : "load:wrong-value";
        std::string near;
        for (auto &a : allowed) if (a.p.size() != out.size() && (a.p.compare(0, out.size(), out) == 0 || out.compare(0, a.p.size(), a.p) == 0)) { near = " (a saved value of different length " + std::to_string(a.p.size()) + " shares its prefix)"; break; }
        return bad(sig, what + ": load() returned " + rec_str((long long)t, out) + ", which no save of this session ever stored" + near + "; file image " + std::to_string(img.size()) + "B header=" + vr::hex(img.substr(0, 16)));
    }
    V_CHECK((long long)t >= g_now, "load:expired-record-returned", what + ": load() returned a record whose deadline is past: " + rec_str((long long)t, out));
    if (must) V_CHECK(must->d == (long long)t && must->p == out, "load:wrong-value", what + ": file holds " + rec_str(must->d, must->p) + " but load() returned " + rec_str((long long)t, out));
    V_CHECK(still && after == img, "load:live-file-removed-or-changed", what + ": a successful load() removed or modified the file");
    return ok();
}

static std::string overlay(std::string base, long long off, std::string const &b, size_t n) {
    if (off < 0) off = 0;
    if (base.size() < (size_t)off + n) base.resize((size_t)off + n, '\0');
    memcpy(&base[(size_t)off], b.data(), n);
    return base;
}

struct Limits { double exhaustive; int samples; size_t byte_all; };
static Limits limits() {
    if (vr::thorough()) return {6200, 1500, 20000};
    return {1100, 300, 9000};
}

// one save on the main directory + enumeration of its crash states
static Outcome do_save(Ctx &x, booster::shared_ptr<session_storage> const &st, int opi, Op const &op) {
    HCase const &c = *x.c;
    std::string sid = SIDS[op.sid & 3];
    SidModel &m = x.m[op.sid & 3];
    std::string path = x.main_dir + "/" + sid;
    std::string pre; bool pre_present = read_img(path, pre);
    Rec inflight{g_now + op.dl, op.data};
    g_writes.clear(); g_rec = true;
    try { st->save(sid, (time_t)inflight.d, op.data); } catch (std::exception const &e) { g_rec = false; return bad("save:exception", std::string("save() threw ") + e.what()); }
    g_rec = false;
    std::vector<WRec> W = g_writes;
    std::string post; bool post_present = read_img(path, post);
    V_CHECK(post_present, "save:no-file", "save() left no file");
    std::vector<std::string> V; V.push_back(pre_present ? pre : std::string());
    for (auto &w : W) V.push_back(overlay(V.back(), w.off, w.bytes, w.bytes.size()));
    size_t k = W.size();
    V_CHECK(V[k] == post, "recorder:file-differs-from-recorded-writes", "the file after save() is not the old image plus the recorded write() calls (" + std::to_string(k) + " calls): crash states cannot be derived");

    // what the complete old image must load as
    Rec oldrec; Rec const *old_must = nullptr; bool planted = m.state == 2;
    if (m.state == 1) { oldrec = m.cur; old_must = &oldrec; }
    else if (m.state == 2 && ref_parse(pre, oldrec)) old_must = &oldrec;
    std::vector<Rec> allowed = m.hist; allowed.push_back(inflight);

    const char *prev = !pre_present ? "absent" : planted ? "garbage" : pre.size() < 16 + op.data.size() ? "shorter" : pre.size() == 16 + op.data.size() ? "equal" : "longer";
    VR.cls(std::string("prev.") + prev);
    VR.cls(op.data.empty() ? "payload.empty" : op.data.size() <= 496 ? "payload.one-sector" : op.data.size() <= 8192 ? "payload.multi-sector" : "payload.huge");
    VR.cls(op.dl > 0 ? "deadline.future" : op.dl < 0 ? "deadline.past" : "deadline.now");
    if (pre_present && !planted && m.state == 1 && !op.data.empty() && !m.cur.p.empty()) {
        size_t cp = 0, mn = std::min(op.data.size(), m.cur.p.size()); while (cp < mn && op.data[cp] == m.cur.p[cp]) cp++;
        if (cp == mn) VR.cls("pair.one-is-prefix-of-other"); else if (cp >= 16) VR.cls("pair.shared-prefix>=16"); else VR.cls("pair.unrelated");
    }

    Stats s;
    std::unordered_set<uint64_t> seen;
    std::string crash_path = x.crash_dir + "/" + sid;
    std::string label = "op#" + std::to_string(opi) + " save(" + std::to_string(op.data.size()) + "B, now" + (op.dl >= 0 ? "+" : "") + std::to_string(op.dl) + ") over " + prev + "(" + std::to_string(pre.size()) + "B)";
    Outcome fail;
    auto emit = [&](std::string const &img, const char *family) -> bool {
        if (!seen.insert(vr::fnv(img, 77)).second) return true;
        Kind kind; Rec const *must = nullptr; Rec g;
        if (img == V[k]) { kind = K_NEW; must = &inflight; }
        else if (img == V[0]) { kind = planted ? K_GARBAGE : K_OLD; must = old_must; if (!pre_present) kind = K_TORN; }
        else kind = K_TORN;
        std::vector<Rec> const *al = &allowed; std::vector<Rec> al2;
        if (kind == K_TORN) {
            s.torn++; VR.nontrivial(vr::fnv(img, 1234567 + opi));
            // a torn image whose header still is the planted (garbage) one is judged by the reference parser
            if (planted && ref_parse(img, g)) { al2 = allowed; al2.push_back(g); al = &al2; }
        }
        put_img(crash_path, img);
        s.states++;
        bool gc = c.gc_every > 0 && (s.states % c.gc_every) == 0;
        int ans = -1;
        Outcome o = check_load(x, x.crash_dir, sid, true, img, *al, must, kind, label + " crash state[" + family + "]", &s, gc, &ans);
        if (ans != 0 || !o.ok()) ::unlink(crash_path.c_str());
        if (!o.ok()) { fail = o; return false; }
        if (ans == 0 && kind == K_TORN) s.rejected++;
        if (ans == 1 && kind == K_TORN) { Rec r; if (ref_parse(img, r) && r.d == inflight.d && r.p == inflight.p) s.acc_new++; else if (old_must && ref_parse(img, r) && r.d == old_must->d && r.p == old_must->p) s.acc_old++; else s.acc_other++; }
        return true;
    };

    // F1: prefixes of the call sequence
    if (!pre_present) {
        Outcome o = check_load(x, x.crash_dir, sid, false, "", allowed, nullptr, K_ABSENT, label + " crash state[file not created]");
        if (!o.ok()) return o;
    }
    for (size_t j = 0; j <= k; j++) if (!emit(V[j], "write-call prefix")) return fail;
    VR.cls("family.call-prefix", (long long)k + 1);
    // F2: byte prefixes of every write
    Limits L = limits();
    for (size_t j = 1; j <= k; j++) {
        std::string const &b = W[j - 1].bytes; long long off = W[j - 1].off;
        size_t mlen = b.size();
        for (size_t p = 1; p < mlen; p++) {
            long long cut = off + (long long)p;
            if (cut > 0 && cut < 16) continue;                       // the header is atomic
            if (mlen > L.byte_all) {                                  // huge payloads: boundaries and a stride
                size_t pos = (size_t)cut; size_t r = pos % 512;
                bool keep = p < 64 || mlen - p < 64 || r <= 2 || r >= 510 || (p % 251) == 0;
                if (!keep) continue;
            }
            if (!emit(overlay(V[j - 1], off, b, p), "byte prefix")) return fail;
            VR.cls("family.byte-prefix");
        }
    }
    // F3: per-sector versions x file length
    {
        const size_t S = 512;
        std::vector<size_t> touched;
        for (auto &w : W) if (!w.bytes.empty()) for (size_t sct = (size_t)w.off / S; sct <= ((size_t)w.off + w.bytes.size() - 1) / S; sct++) touched.push_back(sct);
        std::sort(touched.begin(), touched.end()); touched.erase(std::unique(touched.begin(), touched.end()), touched.end());
        size_t T = touched.size();
        std::vector<std::vector<std::string>> opts(T);
        std::vector<int> idx_old(T, 0), idx_new(T, 0);
        auto slice = [&](std::string const &v, size_t sct) { return v.size() > sct * S ? v.substr(sct * S, S) : std::string(); };
        double combos = 1;
        for (size_t i = 0; i < T; i++) {
            for (size_t j = 0; j <= k; j++) {
                std::string sl = slice(V[j], touched[i]);
                size_t q = 0; while (q < opts[i].size() && opts[i][q] != sl) q++;
                if (q == opts[i].size()) opts[i].push_back(sl);
                if (j == 0) idx_old[i] = (int)q;
                if (j == k) idx_new[i] = (int)q;
            }
            combos *= (double)opts[i].size();
        }
        std::vector<size_t> lens;
        for (auto &v : V) if (std::find(lens.begin(), lens.end(), v.size()) == lens.end()) lens.push_back(v.size());
        auto build = [&](std::vector<int> const &ch, size_t len) {
            std::string img; img.reserve(len);
            size_t nsec = (len + S - 1) / S;
            for (size_t sct = 0; sct < nsec; sct++) {
                size_t want = std::min(S, len - sct * S);
                auto it = std::lower_bound(touched.begin(), touched.end(), sct);
                std::string piece = (it != touched.end() && *it == sct) ? opts[it - touched.begin()][ch[it - touched.begin()]] : slice(V[k], sct);
                if (piece.size() > want) piece.resize(want);
                while (piece.size() < want) piece += (char)fill_byte(c, sct * S + piece.size());
                img += piece;
            }
            return img;
        };
        if (T > 0) {
            if (combos * (double)lens.size() <= L.exhaustive) {
                VR.cls("sectors.exhaustive");
                std::vector<int> ch(T, 0);
                for (;;) {
                    for (size_t len : lens) { if (!emit(build(ch, len), "sector subset")) return fail; VR.cls("family.sector-subset"); }
                    size_t i = 0; while (i < T && ++ch[i] == (int)opts[i].size()) { ch[i] = 0; i++; }
                    if (i == T) break;
                }
            } else {
                VR.cls("sectors.sampled");
                // all single-sector tears ...
                for (size_t i = 0; i < T; i++) for (int q = 0; q < (int)opts[i].size(); q++) {
                    std::vector<int> a = idx_new, b2 = idx_old;
                    a[i] = q; b2[i] = q;
                    for (size_t len : lens) { if (!emit(build(a, len), "single sector differs from new")) return fail; if (!emit(build(b2, len), "single sector differs from old")) return fail; VR.cls("family.sector-subset", 2); }
                }
                // ... all "first n sectors new" / "last n sectors new" ...
                for (size_t n = 0; n <= T; n++) {
                    std::vector<int> a = idx_old, b2 = idx_old;
                    for (size_t i = 0; i < n; i++) a[i] = idx_new[i];
                    for (size_t i = T - n; i < T; i++) b2[i] = idx_new[i];
                    if (!emit(build(a, V[k].size()), "leading sectors new")) return fail;
                    if (!emit(build(b2, V[k].size()), "trailing sectors new")) return fail;
                    VR.cls("family.sector-subset", 2);
                }
                // ... and a sample of the rest, drawn from the seed stored in the case
                std::mt19937 rng(c.seed * 7919u + (unsigned)opi);
                for (int n = 0; n < L.samples; n++) {
                    std::vector<int> ch(T);
                    for (size_t i = 0; i < T; i++) ch[i] = (int)(rng() % opts[i].size());
                    if (!emit(build(ch, lens[rng() % lens.size()]), "sector subset (sampled)")) return fail;
                    VR.cls("family.sector-subset");
                }
            }
        }
    }
    VR.cls("torn.rejected", s.rejected); VR.cls("torn.accepted-as-new-save", s.acc_new); VR.cls("torn.accepted-as-old-save", s.acc_old);
    VR.cls("torn.accepted-as-earlier-save", s.acc_other); VR.cls("crash-state.gc-before-load", s.gc_runs); VR.cls("crash-state.torn", s.torn);
    VR.cls("saves");
    if (VR.want_sample())
        VR.sample(label + ": " + std::to_string(k) + " write() calls, " + std::to_string(s.states) + " distinct crash states (" + std::to_string(s.torn) + " torn): rejected " + std::to_string(s.rejected) +
                  ", loaded as new save " + std::to_string(s.acc_new) + ", as old save " + std::to_string(s.acc_old) + ", as earlier save " + std::to_string(s.acc_other));
    m.state = 1; m.cur = inflight; m.hist.push_back(inflight);
    return ok();
}

static std::string make_plant(HCase const &c, Op const &op, bool &excluded) {
    excluded = false;
    long long d = g_now + op.dl;
    if (op.a == 9) {                                         // raw garbage of op.c bytes, optionally with a chosen time stamp
        size_t n = op.c < 0 ? 0 : (size_t)op.c;
        std::string g = synth(c.seed * 4 + (unsigned)op.b * 4, n);
        if (op.b & 1) { std::string h = make_header(d, 0, 0); for (size_t i = 0; i < 8 && i < n; i++) g[i] = h[i]; }
        if (n > 14) g[14] = 0;
        if (n > 15) g[15] = 0;
        return g;
    }
    uint32_t crc = my_crc32(op.data.data(), op.data.size()), size = (uint32_t)op.data.size();
    switch (op.a) { case 1: crc ^= 1; break; case 2: crc = ~crc; break; case 3: crc = 0; break; case 4: crc ^= 0x80000000u; break; default: break; }
    switch (op.b) { case 1: if (size) size -= 1; break; case 2: size += 1; break; case 3: size = 0; break; case 4: size += 1000; break; case 6: size = 0; crc = 0; break;
                    case 5: size = 0x7fffff00u; break; default: break; }
    if (size > (1u << 24) && vr::env("C18_ALLOW_HUGE_SIZE_FIELD").empty()) excluded = true;   // env: manual spike only
    std::string img = make_header(d, crc, size) + op.data;
    if (op.c >= 100000) img += synth(c.seed + 17, (size_t)(op.c - 100000));
    else if (op.c >= 0 && (size_t)op.c < img.size()) img.resize((size_t)op.c);
    return img;
}

static Outcome run_history(HCase const &c) {
    Ctx x; x.c = &c;
    std::string root = vr::env("VERIF_SCRATCH", ".") + "/c18-" + std::to_string(getpid());
    ::mkdir(root.c_str(), 0777);
    x.main_dir = root + "/main"; x.crash_dir = root + "/crash";
    wipe_dir(x.main_dir); wipe_dir(x.crash_dir);
    x.procs = c.mode == 1 ? 5 : 1; x.flock = c.mode == 2;
    g_now = 1500000000LL + (long long)(c.seed % 1000);
    VR.cls(c.mode == 0 ? "storage.mutex" : c.mode == 1 ? "storage.pshared-mutex" : "storage.fcntl-lock");
    if (c.fill) VR.excl("stale-filler: high bytes of a would-be size field forced to 0 (same class)");
    put_img(x.main_dir + "/not-a-session.lock", "x");        // gc must cope with foreign names (no assertion about it)
    session_file_storage_factory f(x.main_dir, c.conc, x.procs, x.flock);
    booster::shared_ptr<session_storage> st = f.get();
    int opi = 0;
    for (auto const &op : c.ops) {
        opi++;
        int si = op.sid & 3; std::string sid = SIDS[si]; SidModel &m = x.m[si]; std::string path = x.main_dir + "/" + sid;
        std::string what = "op#" + std::to_string(opi);
        switch (op.kind) {
        case SAVE: { Outcome o = do_save(x, st, opi, op); if (!o.ok()) return o; break; }
        case TICK: g_now += op.dl > 0 ? op.dl : 1; VR.cls("op.tick"); break;
        case REMOVE: {
            try { st->remove(sid); } catch (std::exception const &e) { return bad("remove:exception", e.what()); }
            std::string a; V_CHECK(!read_img(path, a), "remove:file-kept", what + ": remove() left the file in place");
            m.state = 0; VR.cls("op.remove"); break;
        }
        case PLANT: {
            bool ex; std::string img = make_plant(c, op, ex);
            if (ex) { VR.excl("garbage-file-with-size-field>16MiB (load allocates it: DESIGN 6 item 8)"); break; }
            put_img(path, img); m.state = 2;
            Rec g; bool valid = ref_parse(img, g);
            if (valid) m.hist.push_back(g);
            VR.cls(valid ? (g.d >= g_now ? "plant.valid-live-record" : "plant.valid-expired-record") : img.size() < 8 ? "plant.no-time-stamp" : img.size() < 16 ? "plant.short-header" : "plant.inconsistent-record");
            break;
        }
        case LOAD: {
            std::string img; bool present = read_img(path, img);
            Rec g; Rec const *must = nullptr; Kind kind = K_OLD;
            if (!present) kind = K_ABSENT;
            else if (m.state == 1) { g = m.cur; must = &g; }
            else { kind = K_GARBAGE; if (ref_parse(img, g)) must = &g; }
            int ans = -1;
            Outcome o = check_load(x, x.main_dir, sid, present, img, m.hist, must, kind, what + " load", nullptr, false, &ans);
            if (!o.ok()) return o;
            if (ans == 0) m.state = 0;
            VR.cls(ans == 1 ? "op.load.hit" : "op.load.miss");
            if (present && kind == K_GARBAGE && !must) VR.nontrivial(vr::fnv(img, 99));
            break;
        }
        case GC: {
            std::string before[4], after[4]; bool pb[4], pa[4];
            for (int i = 0; i < 4; i++) pb[i] = read_img(x.main_dir + "/" + SIDS[i], before[i]);
            try { f.gc_job(); } catch (std::exception const &e) { return bad("gc:exception", what + ": gc() threw " + e.what()); }
            for (int i = 0; i < 4; i++) {
                pa[i] = read_img(x.main_dir + "/" + SIDS[i], after[i]);
                if (!pb[i]) { V_CHECK(!pa[i], "gc:file-created", what + ": gc() created a file"); continue; }
                Rec g; bool intact_live = false;
                if (x.m[i].state == 1) intact_live = x.m[i].cur.d > g_now;
                else if (ref_parse(before[i], g)) intact_live = g.d > g_now;
                Outcome o = check_gc_file(before[i], pa[i], after[i], intact_live, what + " gc, session " + std::to_string(i));
                if (!o.ok()) return o;
                VR.eval();
                VR.cls(pa[i] ? "op.gc.kept" : "op.gc.removed");
                if (!pa[i]) x.m[i].state = 0;
            }
            break;
        }
        default: break;
        }
    }
    wipe_dir(x.main_dir); wipe_dir(x.crash_dir);
    return ok();
}

// rapidcheck keeps shrinking as long as candidates fail; each candidate is a whole history with thousands of loads.  After this many
// failing evaluations further candidates are not executed (they "pass"), which only ends the shrink earlier; the case file on disk is
// the last failing one.
static int g_failed_evals = 0;
static Outcome p_history(HCase const &c) {
    if (g_failed_evals >= 60) return ok();
    Outcome o = run_history(c);
    if (!o.ok()) g_failed_evals++;
    static int done = 0;
    if (++done % 25 == 0) VR.flush();                       // progress is visible in the report file of a long run
    return o;
}
static Outcome p_history_direct(HCase const &c) { return run_history(c); }

// ---- generator ---------------------------------------------------------------------------------------------------------------
static std::string gen_payload(bool thorough, int case_base = 0, long prev_len = -1) {
    // most payloads of one history share one of two bases, so that one value is often a prefix of / shares a long prefix with another
    int base = *rc::gen::weightedElement<int>({{5, case_base}, {3, case_base + 1}, {2, *vr::range<int>(0, 8)}});
    int cls = *rc::gen::weightedElement<int>({{8, 0}, {24, 1}, {14, 2}, {14, 3}, {24, 4}, {12, 5}, {thorough ? 3 : 1, 6}, {prev_len >= 0 ? 22 : 0, 7}});
    size_t n = 0;
    switch (cls) {
    case 7: n = (size_t)prev_len; break;                       // same length as the value it replaces
    case 0: n = 0; break;
    case 1: n = (size_t)*vr::range<int>(1, 41); break;
    case 2: n = (size_t)*vr::range<int>(41, 496); break;
    case 3: n = (size_t)(*rc::gen::element<int>(496, 1008, 1520, 2032) + *vr::range<int>(-3, 4)); break;
    case 4: n = (size_t)*vr::range<int>(497, 3000); break;
    case 5: n = (size_t)*vr::range<int>(3000, 8193); break;
    case 6: n = (size_t)*vr::range<int>(65500, 70000); break;
    }
    std::string p = synth((unsigned)base, n);
    int edits = n ? *rc::gen::weightedElement<int>({{5, 0}, {3, 1}, {2, 2}}) : 0;
    for (int e = 0; e < edits; e++) {
        size_t pos;
        switch (*vr::range<int>(0, 5)) { case 0: pos = n - 1; break; case 1: pos = 0; break; case 2: pos = n > 497 ? 495 + (size_t)*vr::range<int>(0, 3) : n / 2; break; case 3: pos = n / 2; break; default: pos = (size_t)*vr::range<int>(0, (int)n); }
        p[pos] = (char)(p[pos] ^ (1 << *vr::range<int>(0, 8)));
    }
    return p;
}
static long long gen_deadline() {
    switch (*rc::gen::weightedElement<int>({{45, 0}, {20, 1}, {5, 2}, {5, 3}, {20, 4}, {5, 5}})) {
    case 0: return *vr::range<int>(1, 120);
    case 1: return *vr::range<int>(1000, 1000000);
    case 2: return (1LL << 33) + *vr::range<int>(0, 1000);
    case 3: return 0;
    case 4: return -(long long)*vr::range<int>(1, 1000);
    default: return -(1LL << 40);
    }
}
static rc::Gen<HCase> gen_case() {
    bool thorough = vr::thorough();
    return rc::gen::exec([thorough]() {
        HCase c;
        c.mode = *vr::range<int>(0, 3);
        c.conc = *rc::gen::element<int>(1, 5, 64);
        c.fill = *vr::range<int>(0, 2);
        c.gc_every = *rc::gen::element<int>(0, 0, 1, 5, 40);
        c.seed = (unsigned)*vr::range<int>(1, 1000000);
        int nops = *vr::range<int>(2, thorough ? 13 : 9);
        int nsid = *rc::gen::weightedElement<int>({{5, 1}, {3, 2}, {2, 4}});
        int case_base = *vr::range<int>(0, 8);
        long last_len[4] = {-1, -1, -1, -1};
        for (int i = 0; i < nops; i++) {
            Op o;
            o.kind = *rc::gen::weightedElement<int>({{50, (int)SAVE}, {10, (int)LOAD}, {6, (int)REMOVE}, {10, (int)GC}, {10, (int)TICK}, {14, (int)PLANT}});
            o.sid = *vr::range<int>(0, nsid);
            switch (o.kind) {
            case SAVE: o.dl = gen_deadline(); o.data = gen_payload(thorough, case_base, last_len[o.sid]); last_len[o.sid] = (long)o.data.size(); break;
            case TICK: o.dl = *vr::range<int>(1, 150); break;
            case PLANT:
                o.dl = gen_deadline();
                if (*vr::range<int>(0, 5) == 0) { o.a = 9; o.b = *vr::range<int>(0, 8); o.c = *rc::gen::element<int>(0, 1, 7, 8, 9, 15, 16, 17, 40, 600, 1500); }
                else {
                    o.data = gen_payload(false, case_base, last_len[o.sid]); if (o.data.size() > 9000) o.data.resize(9000);
                    last_len[o.sid] = (long)o.data.size();
                    o.a = *rc::gen::weightedElement<int>({{5, 0}, {1, 1}, {1, 2}, {1, 3}, {1, 4}});
                    o.b = *rc::gen::weightedElement<int>({{10, 0}, {2, 1}, {2, 2}, {4, 3}, {2, 4}, {2, 6}, {1, 5}});   // 5 = huge size field: excluded in make_plant, counted
                    int n = (int)o.data.size();
                    o.c = *rc::gen::weightedElement<int>({{6, -1}, {1, 0}, {1, 5}, {1, 8}, {1, 12}, {1, 16}, {1, 16 + n / 2}, {1, 16 + n - 1 < 0 ? 0 : 16 + n - 1}, {2, 100000 + 700}});
                }
                break;
            default: break;
            }
            c.ops.push_back(o);
        }
        return c;
    });
}

// ---- deterministic grid: (old length, new length) around the header / sector boundaries x content relation x deadlines -------------
static bool run_grid(long stride, long offset) {
    static const int LEN[] = {0, 1, 2, 15, 16, 17, 100, 495, 496, 497, 511, 512, 513, 1007, 1008, 1009, 1600};
    const int NL = sizeof LEN / sizeof LEN[0];
    long idx = 0;
    for (int i = -1; i < NL; i++) for (int j = 0; j < NL; j++) for (int rel = 0; rel < 3; rel++) for (int dv = 0; dv < 2; dv++) {
        if (dv == 1 && rel != 0) continue;                                        // past deadline: one content relation is enough
        idx++;
        if (stride > 1 && (idx % stride) != offset) continue;
        HCase c; c.mode = (int)(idx % 3); c.conc = 5; c.fill = (int)((idx / 3) % 2); c.gc_every = (idx % 4) == 0 ? 3 : 0; c.seed = (unsigned)(1000 + idx);
        if (i >= 0) {
            Op a; a.kind = SAVE; a.dl = 500; a.data = synth(0, (size_t)LEN[i]); c.ops.push_back(a);
        }
        Op t; t.kind = TICK; t.dl = 10; c.ops.push_back(t);
        Op b; b.kind = SAVE; b.dl = dv == 0 ? 700 : -5;
        b.data = synth(rel == 2 ? 4 : 0, (size_t)LEN[j]);                       // rel 0: same content (prefix relation), 1: last byte differs, 2: unrelated
        if (rel == 1 && !b.data.empty()) b.data[b.data.size() - 1] ^= 0x40;
        c.ops.push_back(b);
        Op g; g.kind = GC; c.ops.push_back(g);
        Op l; l.kind = LOAD; c.ops.push_back(l);
        Op t2; t2.kind = TICK; t2.dl = 1000; c.ops.push_back(t2);
        Op g2; g2.kind = GC; c.ops.push_back(g2);
        VR.cls("grid.cases");
        if (!vr::run_direct("history", c, p_history_direct)) return false;
    }
    return true;
}

int main(int argc, char **argv) {
    std::vector<std::unique_ptr<vr::PropBase>> props;
    props.push_back(vr::prop<HCase>("history", gen_case(), p_history));
    if (!vr::replay_arg(argc, argv)) {
        std::string mode = vr::env("C18_MODE", "rc");
        if (mode == "grid") {
            vr::install_crash_hooks();
            VR.disjoint = true;
            bool good = true;
            std::string rd = vr::env("C18_REGRESS_DIR");
            if (!rd.empty() && vr::envl("C18_OFFSET", 0) == 0) {            // hand-written regression histories (replays/C18/regress-*.case)
                std::vector<std::string> names;
                if (DIR *d = opendir(rd.c_str())) { while (dirent *e = readdir(d)) { std::string n = e->d_name; if (n.compare(0, 8, "regress-") == 0 && n.size() > 5 && n.substr(n.size() - 5) == ".case") names.push_back(n); } closedir(d); }
                std::sort(names.begin(), names.end());
                for (auto &n : names) {
                    vr::CaseReader r(vr::read_file(rd + "/" + n));
                    if (r.w() != "history") continue;
                    HCase c = HCase::decode(r);
                    VR.cls("regress.cases");
                    good = vr::run_direct("history", c, p_history_direct) && good;
                }
            }
            good = run_grid(vr::envl("C18_STRIDE", 1), vr::envl("C18_OFFSET", 0)) && good;
            VR.finish();
            return good ? 0 : 1;
        }
    }
    return vr::rc_main(argc, argv, props);
}
