// C20 — URL routing is deterministic, whole-string, and consistent with URL generation.
//
// Generated application trees (depth 1..4) with handlers registered through every url_dispatcher API (assign 0..6, assign_generic,
// map_generic, typed map, mount / add / attach), mounted behind generated mount points in the real applications_pool of a
// cppcms::service (no network: requests are contexts over a dummy cgi connection).  For each generated request the implementation's
// answer (which mount point, which sub-url, which handler, which arguments, or 404) is compared with an independent model:
// a 60-line backtracking matcher over the pattern AST (cross-checked by std::regex), first-match-in-registration-order.
// The url_mapper is compared with a reference written from its documentation, and every generated URL is routed back from the
// root and must reach the handler registered under the key with the same parameters (known by construction of the patterns).
#include "vrc.h"
#include "c20_gen.cpp"
#include "c20_regress.cpp"
#include <dirent.h>

#include <cppcms/service.h>
#include <cppcms/application.h>
#include <cppcms/applications_pool.h>
#include <cppcms/mount_point.h>
#include <cppcms/url_dispatcher.h>
#include <cppcms/url_mapper.h>
#include <cppcms/http_context.h>
#include <cppcms/http_request.h>
#include <cppcms/http_response.h>
#include <cppcms/json.h>
#include <cppcms/cppcms_error.h>
#include <booster/regex.h>
#include "cgi_api.h"
#include "response_headers.h"
#include <booster/aio/aio_category.h>
#include <booster/system_error.h>
#include <sstream>

using vr::Outcome; using vr::ok; using vr::bad;
using namespace c20;

// ---- request context without a network (same idea as /repo/tests/dummy_api.h) ---------------------------------
class DummyConn : public cppcms::impl::cgi::connection {
public:
    DummyConn(cppcms::service &srv, std::map<std::string, std::string> const &env, std::string &output)
        : cppcms::impl::cgi::connection(srv), output_(&output), headers_written_(false) {
        for (auto &kv : env) env_.add(pool_.add(kv.first), pool_.add(kv.second));
    }
    void set_response_headers(cppcms::impl::response_headers &h) override {
        cppcms::impl::response_headers::string_buffer_wrapper wr;
        h.format_cgi_headers(wr, true);
        headers_ = wr.data();
    }
    booster::aio::const_buffer format_output(booster::aio::const_buffer const &in, bool, booster::system::error_code &) override {
        if (headers_written_) return in;
        headers_written_ = true;
        return booster::aio::buffer(headers_) + in;
    }
    void async_read_headers(cppcms::impl::cgi::handler const &) override { throw std::runtime_error("dummy: unsupported"); }
    void async_read_eof(cppcms::impl::cgi::callback const &) override { throw std::runtime_error("dummy: unsupported"); }
    void do_eof() override {}
    void on_async_write_start() override {}
    void on_async_write_progress(bool) override {}
    bool write(booster::aio::const_buffer const &body, bool eof, booster::system::error_code &e) override {
        booster::aio::const_buffer in = format_output(body, eof, e);
        auto all = in.get();
        for (size_t i = 0; i < all.second; i++) output_->append(reinterpret_cast<char const *>(all.first[i].ptr), all.first[i].size);
        return true;
    }
    bool nonblocking_write(booster::aio::const_buffer const &in, bool eof, booster::system::error_code &e) override { return write(in, eof, e); }
    booster::aio::stream_socket &socket() override { throw std::runtime_error("dummy: unsupported"); }
    booster::aio::io_service &get_io_service() override { throw std::runtime_error("dummy: unsupported"); }
    bool keep_alive() override { return false; }
    void async_read_some(void *, size_t, cppcms::impl::cgi::io_handler const &) override { throw std::runtime_error("dummy: unsupported"); }
private:
    std::string *output_;
    std::string headers_;
    bool headers_written_;
};

static cppcms::service &the_service(bool throws) {
    static std::unique_ptr<cppcms::service> s[2];
    int i = throws ? 1 : 0;
    if (!s[i]) {
        cppcms::json::value cfg;
        cfg["localization"]["locales"][0] = "en_US.UTF-8";
        cfg["misc"]["invalid_url_throws"] = throws;
        cfg["logging"]["stderr"] = false;
        s[i].reset(new cppcms::service(cfg));
    }
    return *s[i];
}
static Oracle &oracle() { static Oracle o; return o; }
static bool g_quiet = false;     // self test: no samples

// ---- what the implementation did --------------------------------------------------------------------------------
struct LogEntry { int node, idx; std::vector<std::string> args; };
struct Log { std::vector<LogEntry> ran, refused; void clear() { ran.clear(); refused.clear(); } };

struct Slot {       // receiver of the typed url_dispatcher::map() handlers (not an application: no init()/clear() calls)
    Log *log; int node, idx;
    void s0() { log->ran.push_back({node, idx, {}}); }
    void s1(std::string const &a) { log->ran.push_back({node, idx, {a}}); }
    void s2(std::string a, std::string const &b) { log->ran.push_back({node, idx, {a, b}}); }
    void i1(int a) { log->ran.push_back({node, idx, {"int:" + std::to_string(a)}}); }
    void is2(int a, std::string b) { log->ran.push_back({node, idx, {"int:" + std::to_string(a), b}}); }
};
struct IdPool : cppcms::application_specific_pool {
    int idx;
    explicit IdPool(int i) : idx(i) {}
    cppcms::application *new_application(cppcms::service &) override { return nullptr; }   // never asked: the tree is owned by the fixture
};

static std::vector<std::string> all_groups(booster::cmatch const &m) {
    std::vector<std::string> r;
    for (size_t i = 0; i < m.size(); i++) r.push_back(std::string(m[(int)i]));
    return r;
}

struct Fx {
    cppcms::service &srv;
    Case const &c;
    Log log;
    std::vector<cppcms::application *> apps;
    std::vector<char> owned;                          // deleted by the parent application
    std::vector<std::unique_ptr<Slot>> slots;
    std::vector<booster::shared_ptr<IdPool>> pools;
    std::vector<cppcms::mount_point> mps;
    std::unique_ptr<cppcms::url_dispatcher> flat;

    Fx(cppcms::service &s, Case const &cs) : srv(s), c(cs) {
        try { build(); } catch (...) { cleanup(); throw; }
    }
    ~Fx() { cleanup(); }
    void cleanup() {
        for (auto &p : pools) srv.applications_pool().unmount(p);
        pools.clear();
        for (size_t i = 0; i < apps.size(); i++) if (!owned[i]) delete apps[i];
        apps.clear();
    }
    void reg(cppcms::url_dispatcher &d, cppcms::application *app, int n, int i) {
        Handler const &h = c.nodes[n].hs[i];
        std::string const &re = h.pat.text;
        Log *lg = &log;
        switch (h.api) {
        case A_ASSIGN: {
            std::vector<int> const &s = h.sel;
            switch (s.size()) {
            case 0: d.assign(re, [lg, n, i]() { lg->ran.push_back({n, i, {}}); }); break;
            case 1: d.assign(re, [lg, n, i](std::string a) { lg->ran.push_back({n, i, {a}}); }, s[0]); break;
            case 2: d.assign(re, [lg, n, i](std::string a, std::string b) { lg->ran.push_back({n, i, {a, b}}); }, s[0], s[1]); break;
            case 3: d.assign(re, [lg, n, i](std::string a, std::string b, std::string c3) { lg->ran.push_back({n, i, {a, b, c3}}); }, s[0], s[1], s[2]); break;
            case 4: d.assign(re, [lg, n, i](std::string a, std::string b, std::string c3, std::string d4) { lg->ran.push_back({n, i, {a, b, c3, d4}}); }, s[0], s[1], s[2], s[3]); break;
            case 5: d.assign(re, [lg, n, i](std::string a, std::string b, std::string c3, std::string d4, std::string e5) { lg->ran.push_back({n, i, {a, b, c3, d4, e5}}); }, s[0], s[1], s[2], s[3], s[4]); break;
            default: d.assign(re, [lg, n, i](std::string a, std::string b, std::string c3, std::string d4, std::string e5, std::string f6) { lg->ran.push_back({n, i, {a, b, c3, d4, e5, f6}}); }, s[0], s[1], s[2], s[3], s[4], s[5]); break;
            }
            break;
        }
        case A_RGEN: d.assign_generic(re, [lg, n, i](booster::cmatch const &m) { lg->ran.push_back({n, i, all_groups(m)}); }); break;
        case A_GEN: {
            int rej = h.reject;
            cppcms::url_dispatcher::generic_handler gh = [lg, n, i, rej](cppcms::application &, booster::cmatch const &m) -> bool {
                std::vector<std::string> g = all_groups(m);
                bool refuse = (rej == 1 && (g.size() < 2 || g[1].empty())) || (rej == 2 && (g[0].size() & 1));
                if (refuse) { lg->refused.push_back({n, i, g}); return false; }
                lg->ran.push_back({n, i, g});
                return true;
            };
            booster::regex r(re, h.pat.icase ? booster::regex::icase : 0);
            if (h.has_meth) d.map_generic(h.meth.text, r, gh); else d.map_generic(r, gh);
            break;
        }
        case A_TYPED: {
            slots.emplace_back(new Slot{lg, n, i});
            Slot *sl = slots.back().get();
            std::vector<int> const &s = h.sel;
            bool m = h.has_meth != 0; std::string const &me = h.meth.text;
            switch (h.typed) {
            case T_S0: if (m) d.map(me, re, &Slot::s0, sl); else d.map(re, &Slot::s0, sl); break;
            case T_S1: if (m) d.map(me, re, &Slot::s1, sl, s[0]); else d.map(re, &Slot::s1, sl, s[0]); break;
            case T_S2: if (m) d.map(me, re, &Slot::s2, sl, s[0], s[1]); else d.map(re, &Slot::s2, sl, s[0], s[1]); break;
            case T_I1: if (m) d.map(me, re, &Slot::i1, sl, s[0]); else d.map(re, &Slot::i1, sl, s[0]); break;
            default: if (m) d.map(me, re, &Slot::is2, sl, s[0], s[1]); else d.map(re, &Slot::is2, sl, s[0], s[1]); break;
            }
            break;
        }
        case A_MOUNT: {
            cppcms::application *ch = apps[h.child];
            int sel = h.sel[0];
            if (h.attach == 0) { owned[h.child] = 1; if (h.has_key) app->attach(ch, h.key, h.murl, re, sel); else app->attach(ch, re, sel); }
            else if (h.attach == 1) { if (h.has_key) app->add(*ch, h.key, h.murl, re, sel); else app->add(*ch, re, sel); }
            else { app->add(*ch); app->dispatcher().mount(re, *ch, sel); if (h.has_key) app->mapper().mount(h.key, h.murl, *ch); }
            break;
        }
        }
        if (h.api != A_MOUNT && h.has_key && app) { if (h.key.empty()) app->mapper().assign(h.murl); else app->mapper().assign(h.key, h.murl); }
    }
    void build() {
        int N = (int)c.nodes.size();
        if (c.mode == 1) {
            flat.reset(new cppcms::url_dispatcher());
            for (size_t i = 0; i < c.nodes[0].hs.size(); i++) reg(*flat, nullptr, 0, (int)i);
            return;
        }
        owned.assign(N, 0);
        for (int i = 0; i < N; i++) apps.push_back(new cppcms::application(srv));
        for (int n = N - 1; n >= 0; n--) {       // children are configured before their parents mount them, as constructors would
            for (auto &v : c.values) if (v.node == n && v.early) apps[n]->mapper().set_value(v.key, v.val);
            for (size_t i = 0; i < c.nodes[n].hs.size(); i++) reg(apps[n]->dispatcher(), apps[n], n, (int)i);
        }
        for (auto &v : c.values) if (!v.early) apps[v.node]->mapper().set_value(v.key, v.val);
        if (c.mode == 2) apps[0]->mapper().root(c.mroot);
        for (size_t i = 0; i < c.mps.size(); i++) {
            MountP const &m = c.mps[i];
            typedef cppcms::mount_point MP;
            MP::selection_type sel = m.sel == 0 ? MP::match_path_info : MP::match_script_name;
            std::string const &selected = m.sel == 0 ? m.path.text : m.script.text, &non = m.sel == 0 ? m.script.text : m.path.text;
            MP mp;
            switch (m.ctor) {
            case 0: break;
            case 1: mp = MP(m.path.text, m.group); break;
            case 2: mp = MP(m.script.text); break;
            case 3: mp = MP(m.script.text, m.path.text, m.group); break;
            case 4: mp = MP(sel, selected, m.group); break;
            case 5: mp = MP(sel, non); break;
            case 6: mp = MP(sel, non, selected, m.group); break;
            case 7: mp = MP(sel, m.has_host ? booster::regex(m.host.text) : booster::regex(), m.has_script ? booster::regex(m.script.text) : booster::regex(),
                            m.has_path ? booster::regex(m.path.text) : booster::regex(), m.group); break;
            default:
                mp.selection(sel); mp.group(m.group);
                if (m.has_host) mp.host(booster::regex(m.host.text));
                if (m.has_script) mp.script_name(booster::regex(m.script.text));
                if (m.has_path) mp.path_info(booster::regex(m.path.text));
            }
            mps.push_back(mp);
            booster::shared_ptr<IdPool> p(new IdPool((int)i));
            srv.applications_pool().mount(p, mp, 0);
            pools.push_back(p);
        }
    }

    struct Out { int mp = -1; std::string sub; bool is404 = false; std::string status; };
    // the front end's steps: find the pool for (host, script, path), give the application a context, call main(matched)
    Out request(Req const &q) {
        Out o;
        log.clear();
        std::string matched;
        booster::shared_ptr<cppcms::application_specific_pool> p =
            srv.applications_pool().get_application_specific_pool(q.host.c_str(), q.script.c_str(), q.path.c_str(), matched);
        if (!p) return o;
        IdPool *ip = dynamic_cast<IdPool *>(p.get());
        if (!ip) { o.mp = -2; return o; }
        o.mp = ip->idx; o.sub = matched;
        cppcms::application *app = apps[c.mps[o.mp].root];
        std::map<std::string, std::string> env;
        env["HTTP_HOST"] = q.host; env["SCRIPT_NAME"] = q.script; env["PATH_INFO"] = q.path; env["REQUEST_METHOD"] = q.method;
        std::string output;
        booster::shared_ptr<DummyConn> conn(new DummyConn(srv, env, output));
        booster::shared_ptr<cppcms::http::context> ctx(new cppcms::http::context(conn));
        app->assign_context(ctx);
        try {
            app->response().io_mode(cppcms::http::response::normal);
            app->main(matched);
            o.status = app->response().get_header("Status");
            o.is404 = o.status.compare(0, 3, "404") == 0;
        } catch (...) { app->release_context(); throw; }
        app->release_context();
        return o;
    }
};

// ---- comparison ----------------------------------------------------------------------------------------------------
static std::string show_args(std::vector<std::string> const &a) { std::string r = "("; for (size_t i = 0; i < a.size(); i++) r += (i ? "," : "") + ("'" + vr::show(a[i], 40) + "'"); return r + ")"; }
static std::string show_handler(Case const &c, int n, int i) {
    if (n < 0 || i < 0 || n >= (int)c.nodes.size() || i >= (int)c.nodes[n].hs.size()) return "none";
    Handler const &h = c.nodes[n].hs[i];
    return "node" + std::to_string(n) + "#" + std::to_string(i) + "[" + (h.has_meth ? h.meth.text + " " : "") + "'" + vr::show(h.pat.text, 60) + "' api" + std::to_string(h.api) + "]";
}
static std::string show_req(Req const &q) { return vr::show(q.method, 12) + " host='" + vr::show(q.host, 30) + "' script='" + vr::show(q.script, 30) + "' path='" + vr::show(q.path, 60) + "'"; }

static uint64_t config_hash(Case const &c) {
    Case t = c; t.reqs.clear(); t.qs.clear();
    vr::CaseWriter w; t.encode(w);
    return vr::fnv(w.str());
}

// Compare what ran with the model's expectation for the sub-url `sub` given to node `root`.
static Outcome compare_route(Case const &c, Log const &log, bool is404, bool has_ctx, Routed const &exp, std::string const &what) {
    if (log.ran.size() > 1) {
        std::string l; for (auto &e : log.ran) l += " " + show_handler(c, e.node, e.idx);
        return bad("dispatch:multiple-handlers-ran", what + ": handlers that ran:" + l + "; expected " + (exp.hit ? show_handler(c, exp.node, exp.idx) : "404"));
    }
    if (exp.hit) {
        if (log.ran.empty()) return bad("dispatch:404-but-handler-matches", what + ": nothing ran" + (is404 ? " (404)" : "") + ", expected " + show_handler(c, exp.node, exp.idx) + show_args(exp.args));
        LogEntry const &e = log.ran[0];
        if (e.node != exp.node || e.idx != exp.idx) {
            bool later = e.node == exp.node && e.idx > exp.idx;
            return bad(later ? "dispatch:not-first-match" : "dispatch:wrong-handler", what + ": ran " + show_handler(c, e.node, e.idx) + show_args(e.args) + ", the first matching handler in registration order is " + show_handler(c, exp.node, exp.idx));
        }
        if (e.args != exp.args) return bad("dispatch:wrong-arguments", what + ": " + show_handler(c, e.node, e.idx) + " got " + show_args(e.args) + " expected " + show_args(exp.args));
        if (has_ctx && is404) return bad("dispatch:404-despite-handler", what + ": handler ran and a 404 response was produced");
        return ok();
    }
    if (!log.ran.empty()) {
        LogEntry const &e = log.ran[0];
        // the model's 404 comes from node exp.node; a handler of another node ran => the request was routed past the first matching mount/handler
        return bad(e.node == exp.node ? "dispatch:partial-or-wrong-match-accepted" : "dispatch:not-first-match", what + ": ran " + show_handler(c, e.node, e.idx) + show_args(e.args) + " although no handler's method and pattern match the entire string (sub-url '" + vr::show(exp.sub, 60) + "' at node " + std::to_string(exp.node) + ")");
    }
    if (has_ctx && !is404) return bad("dispatch:no-404-when-nothing-matches", what + ": nothing matched but the response status is not 404");
    return ok();
}

static Outcome p_route(Case const &c) {
    std::string why;
    if (!well_formed(c, why) || c.mode > 1 || (c.mode == 0 && c.mps.empty())) return bad("harness:malformed-case", why);
    Oracle &o = oracle();
    Fx fx(the_service(true), c);
    uint64_t ch = config_hash(c);
    TreeInfo ti = tree_info(c);
    int maxdepth = 1; for (int d : ti.depth) maxdepth = std::max(maxdepth, d);
    VR.cls("route.configs");
    VR.cls("route.tree_depth" + std::to_string(maxdepth));
    if (c.mode == 1) VR.cls("route.configs_standalone_dispatcher");
    for (size_t qi = 0; qi < c.reqs.size(); qi++) {
        Req const &q = c.reqs[qi];
        VR.eval();
        bool dis = false;
        std::string what = show_req(q);
        if (q.path.find('\0') != std::string::npos || q.host.find('\0') != std::string::npos || q.script.find('\0') != std::string::npos || q.method.find('\0') != std::string::npos) { VR.excl("request.embedded_nul"); continue; }
        Routed exp;
        Log const *lg = &fx.log;
        bool is404 = false;
        if (c.mode == 1) {
            fx.log.clear();
            bool r = fx.flat->dispatch(q.path);
            exp = model_route(o, c, 0, q.path, nullptr, dis);
            if (dis) { VR.inconclusive++; VR.cls("oracle.disagree"); continue; }
            if (r != !fx.log.ran.empty()) return bad("dispatch:return-value", what + ": dispatch() returned " + (r ? "true" : "false") + " but " + std::to_string(fx.log.ran.size()) + " handlers ran");
            Outcome oc = compare_route(c, *lg, false, false, exp, what);
            if (!oc.ok()) return oc;
        } else {
            // 1. every mount point on its own (public mount_point::match, both overloads)
            for (size_t i = 0; i < c.mps.size(); i++) {
                std::string sub; bool d2 = false;
                bool em = model_mp(o, c.mps[i], q.host, q.script, q.path, sub, d2);
                if (d2) { dis = true; continue; }
                std::pair<bool, std::string> a = fx.mps[i].match(q.host, q.script, q.path), b = fx.mps[i].match(q.host.c_str(), q.script.c_str(), q.path.c_str());
                std::string mw = what + " mount#" + std::to_string(i) + " ctor" + std::to_string(c.mps[i].ctor) + " sel" + std::to_string(c.mps[i].sel) + " group" + std::to_string(c.mps[i].group) +
                                 " host/" + c.mps[i].host.text + "/ script/" + c.mps[i].script.text + "/ path/" + c.mps[i].path.text + "/";
                if (a != b) return bad("mount_point:overloads-differ", mw);
                if (a.first && !em) return bad("mount_point:accepts-non-matching", mw + ": match() accepted with '" + vr::show(a.second, 60) + "', but host/script/path do not all match entirely");
                if (!a.first && em) return bad("mount_point:rejects-matching", mw + ": match() refused, expected sub-url '" + vr::show(sub, 60) + "'");
                if (a.first && a.second != sub) return bad("mount_point:wrong-subpath", mw + ": match() selected '" + vr::show(a.second, 60) + "', expected '" + vr::show(sub, 60) + "'");
                if (!a.first && !a.second.empty()) return bad("mount_point:nonempty-on-failure", mw);
            }
            // 2. the pool: first mount point in mount order
            std::string esub;
            int emp = model_mount(o, c, q.host, q.script, q.path, esub, dis);
            if (emp >= 0) exp = model_route(o, c, c.mps[emp].root, esub, &q.method, dis);
            if (dis) { VR.inconclusive++; VR.cls("oracle.disagree"); continue; }
            Fx::Out out = fx.request(q);
            if (out.mp != emp) {
                if (out.mp >= 0 && emp >= 0) return bad("pool:not-first-mount-point", what + ": pool of mount#" + std::to_string(out.mp) + " selected, first matching in mount order is #" + std::to_string(emp));
                return bad(emp < 0 ? "pool:accepts-non-matching" : "pool:rejects-matching", what + ": pool selected mount#" + std::to_string(out.mp) + ", expected #" + std::to_string(emp));
            }
            if (emp < 0) { VR.cls("mount.none"); if (q.origin == 1) VR.nontrivial(vr::fnv(what, ch)); continue; }
            if (out.sub != esub) return bad("pool:wrong-subpath", what + ": sub-url '" + vr::show(out.sub, 60) + "' expected '" + vr::show(esub, 60) + "'");
            VR.cls("mount.matched");
            if (mp_view(c.mps[emp]).group > 0) VR.cls("mount.matched_with_group");
            if (mp_view(c.mps[emp]).sel == 1) VR.cls("mount.matched_script_selected");
            is404 = out.is404;
            Outcome oc = compare_route(c, *lg, is404, true, exp, what + " -> mount#" + std::to_string(emp) + " sub-url '" + vr::show(esub, 60) + "'");
            if (!oc.ok()) return oc;
            // refused (validation) handlers must precede the one that ran
            for (auto &r : fx.log.refused) if (exp.hit && r.node == exp.node && r.idx >= exp.idx) return bad("dispatch:refusing-handler-after-match", what);
        }
        // classification
        VR.cls(exp.hit ? "route.hit_handler" : "route.404");
        VR.cls("route.origin" + std::to_string(q.origin) + (exp.hit ? ".hit" : ".miss"));
        if (exp.depth >= 2) VR.cls("route.reached_depth" + std::to_string(exp.depth));
        if (exp.overlap >= 2) VR.cls("route.overlap2+");
        if (exp.method_decided) VR.cls("route.method_filter_refused_some");
        if (exp.hit && c.nodes[exp.node].hs[exp.idx].api == A_TYPED && c.nodes[exp.node].hs[exp.idx].typed >= T_I1) VR.cls("route.hit_int_typed");
        if (exp.validation_refused) VR.cls("route.validation_refused_then_continued");
        bool nt = exp.overlap >= 2 || q.origin == 1 || exp.depth >= 2;
        if (nt) VR.nontrivial(vr::fnv(what, ch));
        if (!g_quiet && VR.want_sample()) VR.sample(what + " => " + (exp.hit ? show_handler(c, exp.node, exp.idx) + show_args(exp.args) : "404 at node " + std::to_string(exp.node)) +
                                         " [depth " + std::to_string(exp.depth) + ", " + std::to_string(exp.overlap) + " candidates]");
    }
    return ok();
}

// ---- mapper ---------------------------------------------------------------------------------------------------------
// expected capture groups of handler h for the local url built from (positional params, keywords): by construction of the pattern
static std::vector<std::string> groups_by_construction(Handler const &h, std::vector<std::string> const &pos, std::map<std::string, std::string> const &kw, std::string const &local) {
    std::vector<std::string> g(1, local);
    size_t mp = 0;
    for (auto &p : h.pat.pc) {
        int ng = rx::piece_groups(p.kind);
        if (ng == 0) continue;
        size_t b = h.murl.find('{', mp); if (b == std::string::npos) { for (int i = 0; i < ng; i++) g.push_back(""); continue; }
        size_t e = h.murl.find('}', b); std::string k = h.murl.substr(b + 1, e - b - 1); mp = e + 1;
        std::string v;
        if (isdigit((unsigned char)k[0])) { int j = atoi(k.c_str()); if (j >= 1 && j <= (int)pos.size()) v = pos[j - 1]; }
        else { auto it = kw.find(k); if (it != kw.end()) v = it->second; }
        if (p.kind == rx::K_XNEST) { g.push_back("x" + v); g.push_back(v); } else g.push_back(v);
    }
    return g;
}

static std::vector<std::string> key_keywords(std::string const &key) {
    std::vector<std::string> r;
    size_t ls = key.rfind('/'), sc = key.find(';', ls == std::string::npos ? 0 : ls + 1);
    if (sc == std::string::npos) return r;
    std::string list = key.substr(sc + 1);
    size_t p = 0;
    for (;;) { size_t e = list.find(',', p); r.push_back(list.substr(p, e == std::string::npos ? e : e - p)); if (e == std::string::npos) break; p = e + 1; }
    return r;
}

static Outcome p_mapper(Case const &c) {
    std::string why;
    if (!well_formed(c, why) || c.mode != 2 || c.mps.size() != 1) return bad("harness:malformed-case", why);
    Oracle &o = oracle();
    bool throws = c.throws != 0;
    Fx fx(the_service(throws), c);
    RefMapper ref(c);
    uint64_t ch = config_hash(c);
    TreeInfo ti = tree_info(c);
    int maxdepth = 1; for (int d : ti.depth) maxdepth = std::max(maxdepth, d);
    VR.cls("mapper.configs");
    VR.cls("mapper.tree_depth" + std::to_string(maxdepth));
    static const std::string invalid = "/this_is_an_invalid_url_generated_by_url_mapper";
    for (auto &q : c.qs) {
        VR.eval();
        std::string what = "node" + std::to_string(q.from) + ".map('" + vr::show(q.key, 60) + "'" + (q.params.empty() ? "" : "," + show_args(q.params)) + ")";
        MapOut e = ref.map(q.from, q.key, q.params);
        // call the implementation
        std::vector<int> ints(q.params.size(), 0);
        std::vector<cppcms::filters::streamable> st;
        for (size_t i = 0; i < q.params.size(); i++) {
            if (q.int_mask & (1 << i)) { ints[i] = atoi(q.params[i].c_str()); st.push_back(cppcms::filters::streamable(ints[i])); }
            else st.push_back(cppcms::filters::streamable(q.params[i]));
        }
        std::ostringstream ss; ss << "PRE";
        bool threw = false; std::string emsg;
        cppcms::url_mapper &m = fx.apps[q.from]->mapper();
        try {
            switch (st.size()) {
            case 0: m.map(ss, q.key); break;
            case 1: m.map(ss, q.key, st[0]); break;
            case 2: m.map(ss, q.key, st[0], st[1]); break;
            case 3: m.map(ss, q.key, st[0], st[1], st[2]); break;
            case 4: m.map(ss, q.key, st[0], st[1], st[2], st[3]); break;
            case 5: m.map(ss, q.key, st[0], st[1], st[2], st[3], st[4]); break;
            default: m.map(ss, q.key, st[0], st[1], st[2], st[3], st[4], st[5]); break;
            }
        } catch (cppcms::cppcms_error const &ex) { threw = true; emsg = ex.what(); }
        std::string got = ss.str();
        if (!e.ok) {
            VR.cls("mapper.error_expected");
            if (throws) { if (!threw) return bad("mapper:invalid-key-accepted", what + " produced '" + vr::show(got, 80) + "', the reference says: " + e.err); }
            else {
                if (threw) return bad("mapper:throws-despite-setting", what + ": " + emsg);
                if (got != "PRE" + invalid) return bad("mapper:invalid-key-accepted", what + " produced '" + vr::show(got, 80) + "', the reference says: " + e.err);
            }
            continue;
        }
        if (threw) return bad("mapper:valid-key-refused", what + " threw '" + emsg + "', expected '" + vr::show(e.url, 80) + "'");
        if (got != "PRE" + e.url) return bad("mapper:wrong-url", what + " = '" + vr::show(got.substr(std::min<size_t>(3, got.size())), 80) + "', expected '" + vr::show(e.url, 80) + "'");
        VR.cls("mapper.url_ok");
        // ---- round trip
        if (e.url.compare(0, c.script.size(), c.script) != 0) return bad("harness:script-prefix", what);
        Req r; r.host = "www.a.com"; r.script = c.script; r.path = e.url.substr(c.script.size()); r.method = q.method;
        Handler const &th = c.nodes[e.t_node].hs[e.t_idx];
        if (q.t_node < 0) { VR.cls("mapper.perturbed_key_still_valid"); continue; }    // parameters were not drawn for this entry: no round trip claim
        if (q.t_node >= 0 && (q.t_node != e.t_node || q.t_idx != e.t_idx)) { VR.inconclusive++; VR.cls("mapper.generator_vs_reference_target"); continue; }
        if (th.has_meth) { bool d2 = false; if (!o.pmatch(th.meth, r.method, nullptr, d2)) { std::string s; rx::sample(th.meth.ast, [](int) { return 0; }, s); r.method = s; } }
        // expected by construction
        std::vector<std::string> kwn = key_keywords(q.key);
        size_t nkw = kwn.size();
        std::map<std::string, std::string> kw; for (auto &v : c.values) kw[v.key] = v.val;
        for (size_t i = 0; i < nkw; i++) kw[kwn[i]] = q.params[i];
        std::vector<std::string> pos(q.params.begin() + nkw, q.params.end());
        std::vector<std::string> g = groups_by_construction(th, pos, kw, e.local_urls[0]);
        Routed exp; exp.hit = build_args(th, g, exp.args); exp.node = e.t_node; exp.idx = e.t_idx; exp.depth = ti.depth[e.t_node];
        Fx::Out out = fx.request(r);
        std::string rw = what + " = '" + vr::show(e.url, 80) + "' routed back as " + show_req(r);
        Outcome oc = ok();
        if (out.mp != 0) oc = bad("mapper:roundtrip-mount-point", rw + ": not accepted by the mount point");
        else if (!exp.hit) { VR.inconclusive++; continue; }
        else oc = compare_route(c, fx.log, out.is404, true, exp, rw);
        if (!oc.ok()) {
            // second opinion before raising the alarm: the matcher model on the same configuration
            bool dis = false; std::string esub;
            int emp = model_mount(o, c, r.host, r.script, r.path, esub, dis);
            Routed mr; if (emp >= 0) mr = model_route(o, c, c.mps[emp].root, esub, &r.method, dis);
            bool model_agrees = !dis && emp == 0 && mr.hit == exp.hit && mr.node == exp.node && mr.idx == exp.idx && mr.args == exp.args;
            if (!model_agrees) {
                VR.inconclusive++; VR.cls("mapper.construction_vs_model");
                if (getenv("C20_DEBUG")) fprintf(stderr, "construction_vs_model: %s\n  impl: %s\n  model: hit=%d %s %s\n", rw.c_str(), oc.msg.c_str(), (int)mr.hit, show_handler(c, mr.node, mr.idx).c_str(), show_args(mr.args).c_str());
                continue;
            }
            std::string sig = oc.sig;
            size_t p = sig.find("dispatch:"); if (p == 0) sig = "roundtrip:" + sig.substr(9);
            return bad(sig, oc.msg);
        }
        VR.cls("mapper.roundtrip_ok");
        bool rel = q.key.empty() || q.key[0] != '/';
        bool dotdot = q.key.find("..") != std::string::npos;
        VR.cls(rel ? "mapper.key_relative" : "mapper.key_absolute");
        if (dotdot) VR.cls("mapper.key_dotdot");
        if (nkw) VR.cls("mapper.key_keywords");
        if (th.key.empty()) VR.cls("mapper.default_url");
        if (q.int_mask) VR.cls("mapper.int_params");
        VR.cls("mapper.target_depth" + std::to_string(ti.depth[e.t_node]));
        VR.cls("mapper.arity" + std::to_string(pos.size()));
        if (ti.depth[e.t_node] >= 2 || dotdot || nkw) VR.nontrivial(vr::fnv(what, ch));
        if (!g_quiet && VR.want_sample()) VR.sample(what + " = '" + vr::show(e.url, 80) + "' -> " + show_handler(c, exp.node, exp.idx) + show_args(exp.args));
    }
    return ok();
}

// ---- hand-written regression cases (tiny; also prove that the harness sees a 404 and a hit) ------------------------------
static bool self_test() {
    Case c; c.mode = 0;
    MountP m; m.ctor = 0; m.root = 0; m.host.build(); m.script.build(); m.path.build(); c.mps.push_back(m);
    Node n; Handler h; h.api = A_ASSIGN; h.pat.add(rx::K_LIT, "/a/"); h.pat.add(rx::K_DIGITS); h.pat.build(); h.sel = {1}; n.hs.push_back(h); c.nodes.push_back(n);
    Req q; q.method = "GET"; q.host = "h"; q.script = ""; q.path = "/a/17"; c.reqs.push_back(q);
    q.path = "/a/17x"; q.origin = 1; c.reqs.push_back(q);
    q.path = "x/a/17"; c.reqs.push_back(q);
    g_quiet = true;
    bool r = vr::run_direct("route", c, p_route);
    g_quiet = false;
    return r;
}

// re-run the hand-written cases stored in /verif/replays/C20/reg-*.case (C20_REGRESSIONS names the directory)
static bool run_regressions(std::string const &dir) {
    std::vector<std::string> files;
    if (DIR *d = opendir(dir.c_str())) {
        while (dirent *e = readdir(d)) { std::string n = e->d_name; if (n.compare(0, 4, "reg-") == 0 && n.size() > 5 && n.substr(n.size() - 5) == ".case") files.push_back(dir + "/" + n); }
        closedir(d);
    }
    std::sort(files.begin(), files.end());
    bool good = true;
    g_quiet = true;
    for (auto &f : files) {
        vr::CaseReader r(vr::read_file(f));
        std::string prop = r.w();
        Case c = Case::decode(r);
        VR.cls("regression.files");
        good = (prop == "mapper" ? vr::run_direct("mapper", c, p_mapper) : vr::run_direct("route", c, p_route)) && good;
    }
    g_quiet = false;
    return good;
}

int main(int argc, char **argv) {
    for (int i = 1; i + 1 < argc; i++) if (!strcmp(argv[i], "--emit-regressions")) {
        for (auto &r : regression_cases()) {
            vr::CaseWriter w; w.w(r.prop).nl(); r.c.encode(w);
            vr::write_file(std::string(argv[i + 1]) + "/reg-" + r.name + ".case", w.str());
        }
        return 0;
    }
    std::vector<std::unique_ptr<vr::PropBase>> props;
    int nreq = (int)vr::envl("C20_NREQ", vr::thorough() ? 40 : 20);
    props.push_back(vr::prop<Case>("route", gen_route_case(nreq), p_route));
    props.push_back(vr::prop<Case>("mapper", gen_map_case((int)vr::envl("C20_NQ", vr::thorough() ? 16 : 10)), p_mapper));
    if (!vr::replay_arg(argc, argv)) {
        vr::install_crash_hooks();
        if (!self_test()) { VR.finish(); return 1; }
        std::string rd = vr::env("C20_REGRESSIONS");
        if (!rd.empty() && !run_regressions(rd)) { VR.finish(); return 1; }
    }
    int r = vr::rc_main(argc, argv, props);
    return r;
}
