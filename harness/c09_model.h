// C09: case format, sequential reference cache and the linearizability search.
// Nothing here is derived from src/cache_storage.cpp.  The sequential rules are those of the property statements C07/C08 (properties.jsonl),
// the documentation in cppcms/cache_interface.h and DESIGN.md 6a:
//   store(k,v,T): replaces the entry of k; the entry's triggers are T u {k}; with a limit L > 0 room is made first by dropping the least
//                 recently used entries (store and successful fetch make an entry the most recently used) until fewer than L remain;
//   fetch(k):     hit with exactly what the latest store of k wrote, or miss when there is no entry;
//   rise(t):      drops every entry whose trigger set contains t;   remove(k);   clear();
//   stats():      number of entries, number of (entry, trigger) links.
// All deadlines of this check lie far in the future, so expiry never interferes (C07 decides expiry).
#pragma once
#include "vreport.h"
#include <algorithm>
#include <map>
#include <set>
#include <string>
#include <unordered_set>
#include <vector>

namespace c09 {

static const int NKEYS = 3, NNAMES = 6;      // names 0..2 are keys (a key is always a trigger of its own entry), 3..5 are pure triggers
inline std::string name_of(int i) {
    static const std::string n[NNAMES] = {"k0", "k1-a-key-name-longer-than-the-small-string-buffer", "k2", "t0", "t1-a-trigger-name-longer-than-the-small-string-buffer", "t2"};
    return n[(i % NNAMES + NNAMES) % NNAMES];
}
inline std::string key_name(int k) { return name_of(((k % NKEYS) + NKEYS) % NKEYS); }
inline std::string show_names(std::set<std::string> const &s) {
    std::string r = "{"; bool f = true;
    for (auto &t : s) { r += (f ? "" : ",") + vr::show(t, 6); f = false; }
    return r + "}";
}

enum Kind { STORE, FETCH, RISE, REMOVE, CLEAR, STATS, NKINDS };
inline const char *kind_name(int k) { static const char *n[] = {"store", "fetch", "rise", "remove", "clear", "stats"}; return k >= 0 && k < NKINDS ? n[k] : "?"; }

// value of store #sid: a header naming (store, key, writer, length) plus a filler that depends on the store and the position, so that a
// torn copy (part of one value, part of another) or a value served under another key cannot be mistaken for a value somebody stored
inline std::string make_value(int sid, int key, int who, int vlen) {
    std::string v = "#" + std::to_string(sid) + "/k" + std::to_string(key) + "/w" + std::to_string(who) + "/" + std::to_string(vlen) + ":";
    size_t h = v.size();
    v.resize(h + (size_t)vlen);
    uint32_t x = (uint32_t)sid * 2654435761u + 12345u;
    for (int i = 0; i < vlen; i++) { x = x * 1664525u + 1013904223u; v[h + i] = char('a' + ((x >> 24) + (uint32_t)i) % 26); }
    return v;
}
inline void parse_header(std::string const &v, int &sid, int &key, int &who, size_t &len) {
    sid = key = who = -1; len = 0;
    int a, b, c; unsigned long l;
    if (sscanf(v.substr(0, 60).c_str(), "#%d/k%d/w%d/%lu:", &a, &b, &c, &l) == 4) { sid = a; key = b; who = c; len = l; }
}

// ------------------------------------------------------------------------------------------------ case
struct Op {
    int kind = FETCH;
    int key = 0;             // STORE/FETCH/REMOVE: key 0..2; RISE: name 0..5
    unsigned tmask = 0;      // STORE: triggers passed by the caller (bit i = name i)
    int vlen = 0;            // STORE: filler length
    int spin = 0, yield = 0; // schedule noise before the call
    void encode(vr::CaseWriter &w) const { w.w(kind_name(kind)).i(key).i(tmask).i(vlen).i(spin).i(yield).nl(); }
    static Op decode(vr::CaseReader &r) {
        Op o; std::string k = r.w(); o.kind = -1;
        for (int i = 0; i < NKINDS; i++) if (k == kind_name(i)) o.kind = i;
        if (o.kind < 0) throw std::runtime_error("unknown op " + k);
        o.key = (int)r.i(); o.tmask = (unsigned)r.i(); o.vlen = (int)r.i(); o.spin = (int)r.i(); o.yield = (int)r.i();
        return o;
    }
    std::string str() const {
        std::string s = kind_name(kind);
        switch (kind) {
        case STORE: { s += "(k" + std::to_string(key) + "," + std::to_string(vlen) + "B,{"; bool f = true;
                      for (int i = 0; i < NNAMES; i++) if (tmask & (1u << i)) { s += (f ? "" : ",") + std::string(i < NKEYS ? "k" : "t") + std::to_string(i < NKEYS ? i : i - NKEYS); f = false; }
                      s += "})"; break; }
        case FETCH: case REMOVE: s += "(k" + std::to_string(key) + ")"; break;
        case RISE: s += "(" + std::string(key < NKEYS ? "k" : "t") + std::to_string(key < NKEYS ? key : key - NKEYS) + ")"; break;
        default: s += "()"; break;
        }
        return s;
    }
};

struct Case {
    int limit = 0;
    std::vector<Op> pre;                    // run by the main thread before the threads are released
    std::vector<std::vector<Op>> progs;     // one program per thread
    std::vector<int> delay;                 // spin count of thread t between the start signal and its first operation
    void normalize() {
        auto fix = [](std::vector<Op> &v, size_t cap) {
            if (v.size() > cap) v.resize(cap);
            for (auto &o : v) {
                if (o.kind < 0 || o.kind >= NKINDS) o.kind = FETCH;
                o.key = o.kind == RISE ? ((o.key % NNAMES) + NNAMES) % NNAMES : ((o.key % NKEYS) + NKEYS) % NKEYS;
                o.tmask &= (1u << NNAMES) - 1; o.vlen = std::max(0, std::min(o.vlen, 1 << 20)); o.spin = std::max(0, std::min(o.spin, 1000000)); o.yield = o.yield ? 1 : 0;
            }
        };
        if (limit < 0) limit = 0;
        if (progs.size() > 8) progs.resize(8);
        fix(pre, 16);
        for (auto &p : progs) fix(p, 40);
        delay.resize(progs.size(), 0);
        for (auto &d : delay) d = std::max(0, std::min(d, 10000000));
    }
    void encode(vr::CaseWriter &w) const {
        w.i(limit).i((long long)pre.size()).i((long long)progs.size()).nl();
        for (auto &o : pre) o.encode(w);
        for (size_t t = 0; t < progs.size(); t++) {
            w.i((long long)progs[t].size()).i(t < delay.size() ? delay[t] : 0).nl();
            for (auto &o : progs[t]) o.encode(w);
        }
    }
    static Case decode(vr::CaseReader &r) {
        Case c; c.limit = (int)r.i(); int np = (int)r.i(), nt = (int)r.i();
        for (int i = 0; i < np; i++) c.pre.push_back(Op::decode(r));
        for (int t = 0; t < nt; t++) {
            int n = (int)r.i(); c.delay.push_back((int)r.i());
            c.progs.push_back(std::vector<Op>());
            for (int i = 0; i < n; i++) c.progs.back().push_back(Op::decode(r));
        }
        return c;
    }
    uint64_t hash() const { vr::CaseWriter w; encode(w); return vr::fnv(w.str()); }
    std::string str() const {
        std::string s = "limit=" + std::to_string(limit) + " pre[";
        for (size_t i = 0; i < pre.size(); i++) s += (i ? " " : "") + pre[i].str();
        s += "]";
        for (size_t t = 0; t < progs.size(); t++) {
            s += " | T" + std::to_string(t) + ":";
            for (size_t i = 0; i < progs[t].size() && i < 6; i++) s += " " + progs[t][i].str();
            if (progs[t].size() > 6) s += " ..(" + std::to_string(progs[t].size()) + ")";
        }
        return s;
    }
};

// ------------------------------------------------------------------------------------------------ recorded history
struct StoreInfo { int key = 0; unsigned tmask = 0; int writer = 0; };      // tmask includes the key itself
struct HOp {
    int kind = FETCH, key = 0, thread = 0, idx = 0;     // thread -1: prelude, -2: final stats after join
    uint64_t inv = 0, resp = 0;
    int sid = -1;            // STORE: its store id
    bool hit = false; int got = -1;      // FETCH: result (store id of the value returned)
    unsigned keys = 0, ntr = 0;          // STATS: result
    std::string str() const {
        std::string who = thread == -1 ? "pre" : thread == -2 ? "end" : "T" + std::to_string(thread);
        std::string s = who + "." + std::to_string(idx) + " [" + std::to_string(inv) + "," + std::to_string(resp) + "] " + kind_name(kind);
        switch (kind) {
        case STORE: s += "(k" + std::to_string(key) + ") = #" + std::to_string(sid); break;
        case FETCH: s += "(k" + std::to_string(key) + ") -> " + (hit ? "hit #" + std::to_string(got) : std::string("miss")); break;
        case REMOVE: s += "(k" + std::to_string(key) + ")"; break;
        case RISE: s += "(" + std::string(key < NKEYS ? "k" : "t") + std::to_string(key < NKEYS ? key : key - NKEYS) + ")"; break;
        case STATS: s += "() -> keys=" + std::to_string(keys) + " triggers=" + std::to_string(ntr); break;
        default: s += "()"; break;
        }
        return s;
    }
};

struct History {
    int limit = 0;
    std::vector<StoreInfo> stores;
    std::vector<HOp> ops;
    // set of keys an operation can affect / observe (bit mask)
    unsigned touches(HOp const &o) const {
        switch (o.kind) {
        case STORE: case FETCH: case REMOVE: return 1u << o.key;
        case CLEAR: return (1u << NKEYS) - 1;
        case RISE: { unsigned m = 0; for (auto &s : stores) if (s.tmask & (1u << o.key)) m |= 1u << s.key; return m; }
        default: return 0;
        }
    }
    static bool mutator(HOp const &o) { return o.kind == STORE || o.kind == RISE || o.kind == REMOVE || o.kind == CLEAR; }
    bool same_key_conflict(HOp const &a, HOp const &b) const { return (touches(a) & touches(b)) && (mutator(a) || mutator(b)); }
    std::string dump(size_t max = 90) const {
        std::vector<HOp> v = ops;
        std::sort(v.begin(), v.end(), [](HOp const &a, HOp const &b) { return a.inv < b.inv; });
        std::string s = "history (limit=" + std::to_string(limit) + ", [invoke,response] stamps):\n";
        for (size_t i = 0; i < v.size() && i < max; i++) s += "  " + v[i].str() + "\n";
        s += "stores:";
        for (size_t i = 0; i < stores.size(); i++) {
            s += " #" + std::to_string(i) + "=k" + std::to_string(stores[i].key) + "{";
            for (int j = 0; j < NNAMES; j++) if (stores[i].tmask & (1u << j)) s += std::string(j < NKEYS ? "k" : "t") + std::to_string(j < NKEYS ? j : j - NKEYS);
            s += "}";
        }
        return s + "\n";
    }
    std::string brief() const {
        long hit = 0, miss = 0, st = 0, mut = 0;
        for (auto &o : ops) { if (o.kind == FETCH) (o.hit ? hit : miss)++; else if (o.kind == STORE) st++; else if (mutator(o)) mut++; }
        return std::to_string(ops.size()) + " ops: " + std::to_string(st) + " stores, " + std::to_string(hit) + " hits, " + std::to_string(miss) + " misses, " + std::to_string(mut) + " rise/remove/clear";
    }
};

// ------------------------------------------------------------------------------------------------ sequential reference
// state = entries in most-recently-used-first order, each identified by its store id (key and triggers follow from the id)
struct MState {
    uint16_t e[NKEYS]; int n = 0;            // store id + 1
    MState() { for (auto &x : e) x = 0; }
    uint64_t code() const { uint64_t c = (uint64_t)n; for (int i = 0; i < NKEYS; i++) c = c * 65536 + e[i]; return c; }
};
struct Model {
    History const &h;
    explicit Model(History const &hh) : h(hh) {}
    int find(MState const &s, int key) const { for (int i = 0; i < s.n; i++) if (h.stores[s.e[i] - 1].key == key) return i; return -1; }
    static void erase(MState &s, int i) { for (int j = i; j + 1 < s.n; j++) s.e[j] = s.e[j + 1]; s.n--; s.e[s.n] = 0; }
    static void front(MState &s, uint16_t v) { for (int j = s.n; j > 0; j--) s.e[j] = s.e[j - 1]; s.e[0] = v; s.n++; }
    void canon(MState &s) const {
        // without a limit the recency order is unobservable: keep one representative per set of entries
        if (h.limit == 0) std::sort(s.e, s.e + s.n);
    }
    // applies o to s when the observed result is what the reference returns in state s; false = o cannot happen here
    bool step(MState &s, HOp const &o, bool *evicted = nullptr) const {
        switch (o.kind) {
        case STORE: {
            int i = find(s, o.key); if (i >= 0) erase(s, i);
            if (h.limit > 0) while (s.n > 0 && s.n >= h.limit) { erase(s, s.n - 1); if (evicted) *evicted = true; }
            front(s, (uint16_t)(o.sid + 1)); canon(s); return true; }
        case FETCH: {
            int i = find(s, o.key);
            if (!o.hit) return i < 0;
            if (i < 0 || s.e[i] - 1 != o.got) return false;
            uint16_t v = s.e[i]; erase(s, i); front(s, v); canon(s); return true; }
        case RISE: { for (int i = 0; i < s.n;) { if (h.stores[s.e[i] - 1].tmask & (1u << o.key)) erase(s, i); else i++; } return true; }
        case REMOVE: { int i = find(s, o.key); if (i >= 0) erase(s, i); return true; }
        case CLEAR: { s = MState(); return true; }
        case STATS: {
            unsigned links = 0; for (int i = 0; i < s.n; i++) links += (unsigned)__builtin_popcount(h.stores[s.e[i] - 1].tmask);
            return o.keys == (unsigned)s.n && o.ntr == links; }
        }
        return false;
    }
    std::string show(MState const &s) const {
        std::string r = "[";
        for (int i = 0; i < s.n; i++) r += (i ? " " : "") + std::string("k") + std::to_string(h.stores[s.e[i] - 1].key) + "=#" + std::to_string(s.e[i] - 1);
        return r + (h.limit ? "] (most recently used first)" : "]");
    }
};

// ------------------------------------------------------------------------------------------------ linearizability search
struct LinResult { bool ok = false, capped = false; long long nodes = 0; bool evictions = false; std::string sig, msg; };

struct LinSearch {
    History const &h; Model m; long long cap;
    std::vector<std::vector<HOp const *>> th;       // per thread, in program order
    HOp const *fin = nullptr;
    struct KeyHash { size_t operator()(std::pair<uint64_t, uint64_t> const &k) const { return (size_t)(k.first * 0x9E3779B97F4A7C15ULL ^ (uint64_t)k.second * 0xC2B2AE3D27D4EB4FULL); } };
    std::unordered_set<std::pair<uint64_t, uint64_t>, KeyHash> seen;
    long long nodes = 0; bool capped = false, evict_seen = false;
    // deepest dead end, for the message
    int best_depth = -1; std::vector<int> best_pos; MState best_state;

    LinSearch(History const &hh, long long c) : h(hh), m(hh), cap(c) {}

    bool dfs(std::vector<int> &pos, MState const &s, int depth) {
        if (++nodes > cap) { capped = true; return false; }
        uint64_t pk = 0; for (size_t t = 0; t < th.size(); t++) pk = pk * 64 + (uint64_t)pos[t];
        if (!seen.insert(std::make_pair(pk, s.code())).second) return false;
        // the operation that responded first among the pending ones bounds what may come next
        uint64_t minresp = ~0ULL; bool any = false;
        for (size_t t = 0; t < th.size(); t++) if (pos[t] < (int)th[t].size()) { any = true; minresp = std::min(minresp, th[t][pos[t]]->resp); }
        if (!any) {
            MState f = s;
            if (!fin || m.step(f, *fin)) return true;
            if (depth > best_depth) { best_depth = depth; best_pos = pos; best_state = s; }
            return false;
        }
        for (size_t t = 0; t < th.size(); t++) {
            if (pos[t] >= (int)th[t].size()) continue;
            HOp const *o = th[t][pos[t]];
            if (o->inv > minresp) continue;          // somebody else finished before o began: o cannot be next
            MState n = s; bool ev = false;
            if (!m.step(n, *o, &ev)) continue;
            pos[t]++;
            bool r = dfs(pos, n, depth + 1);
            pos[t]--;
            if (r) { if (ev) evict_seen = true; return true; }
            if (capped) return false;
        }
        if (depth > best_depth) { best_depth = depth; best_pos = pos; best_state = s; }
        return false;
    }
};

// A fetch that returned store #s although an operation invalidating #s began after store #s had completed and completed before the fetch
// began: impossible in every sequential order, and it names the cause.
inline std::string stale_hit(History const &h, std::string &why) {
    for (auto &f : h.ops) {
        if (f.kind != FETCH || !f.hit) continue;
        HOp const *st = nullptr;
        for (auto &o : h.ops) if (o.kind == STORE && o.sid == f.got) st = &o;
        if (!st) continue;
        for (auto &mo : h.ops) {
            bool inval = false;
            switch (mo.kind) {
            case RISE: inval = (h.stores[f.got].tmask & (1u << mo.key)) != 0; break;
            case REMOVE: inval = mo.key == f.key; break;
            case CLEAR: inval = true; break;
            case STORE: inval = mo.key == f.key && mo.sid != f.got; break;
            default: break;
            }
            if (!inval) continue;
            if (st->resp < mo.inv && mo.resp < f.inv) {
                why = f.str() + " returned the value of store #" + std::to_string(f.got) + " (" + st->str() + ") although " + mo.str() + " had completed before the fetch began";
                return std::string("conc:stale-hit-after-") + kind_name(mo.kind);
            }
        }
    }
    return "";
}

inline LinResult linearize(History const &h, long long cap) {
    LinResult r;
    Model m(h);
    LinSearch ls(h, cap);
    int nthreads = 0;
    for (auto &o : h.ops) if (o.thread >= 0) nthreads = std::max(nthreads, o.thread + 1);
    ls.th.resize((size_t)nthreads);
    // the prelude is sequential and precedes everything else
    MState s;
    for (auto &o : h.ops) {
        if (o.thread == -1) {
            if (!m.step(s, o)) {
                r.sig = std::string("seq:prelude-") + kind_name(o.kind) + "-unexpected-result";
                r.msg = "single-threaded prelude: " + o.str() + " but the reference cache is in state " + m.show(s);
                return r;
            }
        } else if (o.thread == -2) ls.fin = &o;
        else ls.th[(size_t)o.thread].push_back(&o);
    }
    for (auto &v : ls.th) std::sort(v.begin(), v.end(), [](HOp const *a, HOp const *b) { return a->idx < b->idx; });
    std::vector<int> pos((size_t)nthreads, 0);
    bool ok = ls.dfs(pos, s, 0);
    r.nodes = ls.nodes; r.evictions = ls.evict_seen;
    if (ok) { r.ok = true; return r; }
    if (ls.capped) { r.capped = true; return r; }
    std::string why, sig = stale_hit(h, why);
    r.sig = sig.empty() ? "conc:not-linearizable" : sig;
    std::string msg = "no sequential order consistent with real time explains the recorded results";
    if (!why.empty()) msg += ": " + why;
    msg += "\nsearch: " + std::to_string(ls.nodes) + " nodes; the longest explainable prefix has " + std::to_string(ls.best_depth) + " thread operations, reference state there " +
           m.show(ls.best_state) + "; pending operations, none of which can come next:\n";
    if (ls.best_depth >= 0) {
        bool any = false;
        for (size_t t = 0; t < ls.th.size(); t++) if (ls.best_pos[t] < (int)ls.th[t].size()) { msg += "    " + ls.th[t][ls.best_pos[t]]->str() + "\n"; any = true; }
        if (!any && ls.fin) msg += "    " + ls.fin->str() + "  (state observed after all threads were joined)\n";
    }
    r.msg = msg;
    return r;
}

} // namespace c09
