"""C19 — serialized objects round-trip exactly and malformed archives are rejected safely."""
import json, os
import verif
from verif import Unit, rc_params

ID = "C19"
TECHNIQUE = ("rapidcheck values of a nested type universe (28 types) built from a byte source; round trip judged by an independent "
             "reference codec of the archive format; every truncation, every length-field mutation and byte flips of each archive, "
             "type-confused/spliced archives, and a libFuzzer campaign of arbitrary bytes, all loaded differentially against the "
             "reference decoder under ASan/UBSan; the session and cache store_data/fetch_data paths")
LEVEL = "exploration"
LEVEL_TEXT = ("Values of 28 types (all arithmetic types, strings with NULs, vector/list/set/multiset/map/multimap/pair nested three "
              "deep, POD vectors, C arrays, as_pod, shared/unique/hold/copy/intrusive pointers null and non-null, json values, user "
              "classes with serialize or save/load, a recursive class) are generated from bytes; save/load in every call form "
              "(operator<< >> &, mode(), reset(), str() reuse, dirty target object, two objects per archive, copied archive, "
              "serialization_traits, cache_interface and session_interface store_data/fetch_data) must reproduce the value exactly, "
              "judged by a reference encoder/decoder written from the format description. Each archive is then damaged "
              "systematically (every truncation, each 4-byte length set to 0, len+-1..4, remaining+-1..4, 2^31-1, 2^31, 2^32-1, "
              "wrap values; bit flips) and each damaged archive, plus spliced/arbitrary/coverage-guided bytes, is loaded: cppcms "
              "must throw a std::exception or return exactly the value the strict reference decoder returns.")
LEVEL_NOTE = ("Sampling, not proof: 28 fixed types stand for the template universe; values are small (archives mostly < 1 KiB). The "
              "strict oracle (cppcms accepts only what the reference decoder accepts) is stronger than pure memory safety and trusts "
              "the 300-line reference codec; json text is parsed by cppcms' own parser on both sides (json is C11's subject); json "
              "numbers are restricted to exactly printable ones. The class of the defect this check found (a chunk overrunning "
              "the end of the archive by 1..3 bytes was accepted; fixed in c0bed3f) is searched again and its regression case runs on every run.")
DESIGN_REF = "3/C19"
RULE = ("value: (type id of 28, <=900 (thorough 2400) source bytes) -> value; non-trivial when the value has dynamic nesting depth >= 2 "
        "or an empty container or a string containing NUL; distinct = hash(type, reference encoding). damage: every truncation of "
        "archives <= 512 B (thorough 4096 B; longer ones: the last 32 cuts, 0..8 bytes after each of the first 96 headers, 128 random "
        "cuts), 21 replacement lengths per header, <= 48 (160) flipped/overwritten bytes; bytes: reference archives of one type read "
        "as another, cut/extended, chunk soup with lying headers, raw bytes; fuzz: libFuzzer [type][mode][payload]. A damaged or "
        "arbitrary input is non-trivial when some chunk header met by the reference decoder declares a length within +-4 of the "
        "bytes remaining after it (fuzz raw mode: every distinct input); distinct = hash(type, bytes). evaluations = value round "
        "trips + damaged loads + byte cases + store cases + fuzz executions.")

HERE = os.path.dirname(os.path.dirname(os.path.abspath(__file__)))
KNOWN = {  # signature -> (class name for C19_INCLUDE_KNOWN, regression case)
    "archive:chunk-past-end-accepted": ("overrun", "c19_archive.known-overrun.case"),
}


def known_state():
    """Which known-defect classes are searched: a class is included again once known_findings.json lists its signature as fixed
    (or C19_INCLUDE_KNOWN names it, used to verify the proposed patches).  Regression cases run for every listed signature."""
    include = set(x for x in os.environ.get("C19_INCLUDE_KNOWN", "").replace("1", "all").split(",") if x)
    regress = []
    try:
        listed = [k for k in json.load(open(os.path.join(HERE, "known_findings.json"))).get("findings", []) if k.get("property") == ID]
    except Exception:
        listed = []
    for sig, (cls, case) in KNOWN.items():
        for k in listed:
            if verif.sig_match(k.get("signature", ""), sig):
                regress.append(case)
                if k.get("status") == "fixed":
                    include.add(cls)
    if "all" in include:
        include = {"overrun"}
    regress += [case for (cls, case) in KNOWN.values() if cls in include]
    return ",".join(sorted(include)), sorted(set(regress))


def specs():
    return [dict(name="c19_archive", srcs="c19_archive.cpp", cfg="asan", rapidcheck=True),
            dict(name="c19_fuzz", srcs="c19_fuzz.cpp", cfg="asan", fuzzer=True)]


def budget(tier):
    if tier == "quick":
        return dict(nv=8, values=1400, nb=2, bytes=30000, ns=2, store=5000, nf=4, fuzz=80000)
    return dict(nv=10, values=20000, nb=2, bytes=600000, ns=2, store=100000, nf=4, fuzz=2500000)


def units(bins, tier, seed):
    b, f = bins["c19_archive"], bins["c19_fuzz"]
    q = budget(tier)
    inc, regress = known_state()
    # small ASan quarantine: the property is about over-reads, not use-after-free, and 16 processes x 256 MiB of quarantine is a lot of RAM
    env0 = {"C19_INCLUDE_KNOWN": inc, "ASAN_OPTIONS": verif.san_env()["ASAN_OPTIONS"] + ":quarantine_size_mb=16"}
    us = []
    for i in range(q["nv"]):
        us.append(Unit("c19_archive.value%d" % i, [b, "--only", "value"], env=dict(env0, RC_PARAMS=rc_params(seed * 1000 + i, q["values"], 200)), group="value"))
    for i in range(q["nb"]):
        us.append(Unit("c19_archive.bytes%d" % i, [b, "--only", "bytes"], env=dict(env0, RC_PARAMS=rc_params(seed * 1000 + 100 + i, q["bytes"], 200)), group="bytes"))
    for i in range(q["ns"]):
        us.append(Unit("c19_archive.store%d" % i, [b, "--only", "store"], env=dict(env0, RC_PARAMS=rc_params(seed * 1000 + 200 + i, q["store"], 200)), group="store"))
    for i in range(q["nf"]):
        us.append(verif.fuzz_unit("c19_fuzz.f%d" % i, f, ID, seed * 1000 + 300 + i, q["fuzz"], max_len=1024,
                                  seeds=[os.path.join(HERE, "corpus", ID)], group="fuzz", env=dict(env0), len_control=20,
                                  extra=["-timeout=900", "-rss_limit_mb=2000"]))
    order = {"value": 0, "bytes": 1, "store": 2, "fuzz": 3}
    us.sort(key=lambda u: (int("".join(ch for ch in u.name if ch.isdigit())[2:] or 0), order.get(u.group, 9)))   # interleave groups (samples of every kind)
    for case in regress:
        us.append(Unit("c19_archive.regress-" + case.split(".")[1], [b, "--regress", os.path.join(HERE, "replays", ID, case)], env=dict(env0), group="regress"))
    return us


def floor(tier):
    q = budget(tier)
    # a value case contributes itself plus its damaged loads (>= 4 for the smallest archive, several hundred on average)
    return {"value": q["nv"] * q["values"] * 40, "bytes": q["nb"] * q["bytes"], "store": q["ns"] * q["store"], "fuzz": q["nf"] * q["fuzz"] // 2}


def run(tier, seed):
    inc, regress = known_state()
    return verif.standard(ID, tier, seed, specs(), units, RULE, level=LEVEL, floor=floor, fuzz_names=["c19_fuzz"],
                          replay_env={"C19_INCLUDE_KNOWN": inc},   # confirmation replays must search the same classes as the run
                          assumptions=["the reference codec in harness/c19_universe.h implements the archive format (u32 host-endian length + bytes per chunk; "
                                       "size_t count + elements; POD vector = one chunk; pointer = 1-byte empty flag + value; json = text chunk)",
                                       "ASan/UBSan report reads outside the archive buffer; independent of that, every accepted input must decode identically in the reference decoder",
                                       "x87 long double: the 6 padding bytes are not part of the value"],
                          extra={"known_classes_included": inc or "none", "regression_cases_run": regress})


def replay(path):
    return verif.standard_replay(specs(), path, fuzz_names=["c19_fuzz"], replay_env={"C19_INCLUDE_KNOWN": known_state()[0]})


# sensitivity mutations (tools/sens.py -w 4 C19); 0-2 are DESIGN.md's S list
MUTATIONS = [
    dict(name="next_chunk_size-no-upper-bound", edits=[("src/archive.cpp", "if(size > buffer_.size() - ptr_ - 4)", "if(ptr_ + size < ptr_)")]),
    dict(name="pod-vector-load-n+1", edits=[("cppcms/archive_traits.h", "\t\t\tv.resize(n);\t\t\t\t\\\n", "\t\t\tv.resize(n+1);\t\t\t\t\\\n")]),
    dict(name="read_chunk-len-mismatch-lt", edits=[("src/archive.cpp", "if(next!=len)", "if(next<len)")]),
    dict(name="revert-fix-c0bed3f-bound-ignores-length-field", edits=[("src/archive.cpp", "if(size > buffer_.size() - ptr_ - 4)", "if(ptr_ + size < ptr_ || ptr_ + size >=buffer_.size())")]),
    dict(name="next_chunk_size-bound-off-by-one", edits=[("src/archive.cpp", "if(size > buffer_.size() - ptr_ - 4)", "if(size > buffer_.size() - ptr_ - 3)")]),
    dict(name="header-check-le-4-rejects-trailing-empty-chunk", edits=[("src/archive.cpp", "if(buffer_.size() - ptr_ < 4) {", "if(buffer_.size() - ptr_ <= 4) {")]),
    dict(name="header-check-dropped", edits=[("src/archive.cpp", "if(buffer_.size() - ptr_ < 4) {", "if(false) {")]),
    dict(name="container-load-no-clear", edits=[("cppcms/archive_traits.h", "\t\t\tarchive_traits<size_t>::load(n,a);\n\t\t\tv.clear();\n\t\t\tstd::insert_iterator", "\t\t\tarchive_traits<size_t>::load(n,a);\n\t\t\tstd::insert_iterator")]),
    dict(name="archive-str-keeps-read-pointer", edits=[("src/archive.cpp", "\tmode_ = load_from_archive;\n\tptr_ = 0;\n", "\tmode_ = load_from_archive;\n")]),
    dict(name="json-load-error-ignored", edits=[("cppcms/archive_traits.h", "if(!v.load(ss,true)) {", "if(!v.load(ss,true) && false) {")]),
    dict(name="smart-pointer-load-keeps-old-object-on-empty", edits=[("cppcms/archive_traits.h", "\t\t\tif(empty) {\t\t\t\t\\\n\t\t\t\td.reset();\t\t\t\\\n", "\t\t\tif(empty) {\t\t\t\t\\\n\t\t\t\t;\t\t\t\\\n")]),
    dict(name="read_chunk_as_string-advance-short", edits=[("src/archive.cpp", "ptr_ +=4+size;", "ptr_ +=4+size-(size>300);")]),
]
