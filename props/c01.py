"""C01 — every front-end delivers the request the peer sent, however it is segmented."""
import verif
from verif import Unit, rc_params

ID = "C01"
ENGINE = "rapidcheck+enumeration"
TECHNIQUE = ("rapidcheck-generated abstract requests encoded for HTTP/SCGI/FastCGI against an in-process cppcms::service; differential oracle "
             "(echo reply == encoded request, for all three front-ends) under generated read schedules (--wrap=readv), plus exhaustive "
             "enumeration of all single and near-boundary double split points for short requests")
LEVEL = "exploration"
LEVEL_TEXT = ("Generated requests (methods, percent-escaped paths, queries, folded/quoted/commented header values, cookies, urlencoded and raw "
              "bodies to 64 KiB, keep-alive sequences of 1-4 requests, optionally pipelined, FastCGI records cut anywhere with padding and "
              "1/4-byte lengths, optional GET_VALUES) are sent to a real service over loopback; an echo application reports what it observed "
              "and the harness compares field by field with the abstract request, for sync, async and default mounts. Sampling, not proof.")
LEVEL_NOTE = ("Trusts the harness's encoders/de-framers; the read schedule is owned through link-time wrapping of readv in the static "
              "libraries (the only read path of booster::aio::stream_socket); loopback delivery is assumed complete after send().")
DESIGN_REF = "3/C01"
RULE = ("case = 1..4 abstract requests x three encodings x a read schedule (caps on successive library reads: unrestricted, byte-by-byte, "
        "1-2 splits around the header/body hand-over, or random caps 1..17000) x mount in {sync, async, default}; enumeration units: for "
        "short requests every single split point and every pair (a,b) with a within 12 bytes of the header/body boundary, per front-end. "
        "Non-trivial: a library read ended inside the header block or within 8 bytes after it (HTTP), inside the netstring header block (SCGI), "
        "before the end of the record stream (FastCGI), or a request was served on a kept-alive connection. Distinct = hash of the whole case.")


def specs():
    return [dict(name="c01_frontends", srcs="c01_frontends.cpp", cfg="asan", rapidcheck=True, wraps=["readv", "writev"])]


def units(bins, tier, seed):
    b = bins["c01_frontends"]
    us = []
    nproc, n = (12, 1500) if tier == "quick" else (14, 12000)
    for i in range(nproc):
        us.append(Unit("c01_frontends.rc%d" % i, [b], env={"RC_PARAMS": rc_params(seed * 1000 + i, n, 100), "VERIF_REGRESS": 1 if i == 0 else 0}, group="random", timeout=7200))
    ne = 4 if tier == "quick" else 2
    for i in range(ne):
        us.append(Unit("c01_frontends.enum%d" % i, [b], env={"C01_ENUM": 3 if tier == "quick" else 60, "VERIF_SEED": seed * 100 + i}, group="enum", timeout=7200))
    return us


def run(tier, seed):
    return verif.standard(ID, tier, seed, specs(), units, RULE, level=LEVEL,
                          floor={"random": 12000, "enum": 2000},
                          assumptions=["harness encoders and de-framers (harness/common/vclient.h) are correct",
                                       "all library socket reads go through ::readv (booster stream_socket.cpp)"])


def replay(path):
    return verif.standard_replay(specs(), path)


MUTATIONS = [
    dict(name="http-readahead-off-by-one", edits=[("src/http_api.cpp", "memcpy(p,&input_body_[input_body_ptr_],s);", "memcpy(p,&input_body_[input_body_ptr_ + (input_body_ptr_ ? 0 : 0)],s); if(s>1 && input_body_.size()-input_body_ptr_ > s) ((char*)p)[s-1]=input_body_[input_body_ptr_+s];")]),
    dict(name="fcgi-padding-not-stripped", edits=[("src/fastcgi_api.cpp", "body_.resize(body_.size() - header_.padding_length);\n\t\t\th(booster::system::error_code());", "if(header_.padding_length < 200) body_.resize(body_.size() - header_.padding_length);\n\t\t\th(booster::system::error_code());")]),
    dict(name="scgi-sep-off-by-one", edits=[("src/scgi_api.cpp", "char const *p=&buffer_[sep_ + 1];", "char const *p=&buffer_[sep_ + 1]; if(buffer_.size() > 900) p++;")]),
    # the pushed-back character is lost when it was the first byte of a freshly read buffer (read boundary right after CRLF)
    dict(name="parser-drop-ungetc", edits=[("private/http_parser.h", "\t\t\t\tungetc(c);\n\t\t\t\theader_.resize(header_.size()-2);", "\t\t\t\tif(*body_ptr_ != 1) ungetc(c);\n\t\t\t\theader_.resize(header_.size()-2);")]),
    dict(name="http-path-decoded-twice", edits=[("src/http_api.cpp", "env_path_info_ = pool_.add(util::urldecode(path,path+strlen(path)));", "{ std::string once_=util::urldecode(path,path+strlen(path)); env_path_info_ = pool_.add(util::urldecode(once_.c_str(),once_.c_str()+once_.size())); }")]),
    dict(name="http-paren-in-request-line-regression", edits=[("src/http_api.cpp", "\t\t\tinput_parser_.quoting(false);\n", "")]),
    dict(name="fcgi-get-values-fallthrough-regression", edits=[("src/fastcgi_api.cpp", "\t\t\t\t\t\t\t\th));\n\t\t\t\treturn;\n\t\t\t}\n\t\t\telse if(header_.type!=fcgi_begin_request)", "\t\t\t\t\t\t\t\th));\n\t\t\t}\n\t\t\telse if(header_.type!=fcgi_begin_request)")]),
    dict(name="fcgi-nonblocking-record-size", edits=[("src/fastcgi_api.cpp", "if(buffer_size < sizeof(hdr) + hdr.content_length + hdr.padding_length)", "if(buffer_size < sizeof(hdr) + hdr.content_length)")]),
    dict(name="header-fold-keeps-crlf", edits=[("private/http_parser.h", "\t\t\t\t\theader_.resize(header_.size() - 2);\n\t\t\t\t\tstate_=input_observed;", "\t\t\t\t\tif(header_.size() < 40) header_.resize(header_.size() - 2);\n\t\t\t\t\tstate_=input_observed;")]),
    dict(name="urlencoded-post-truncated-at-16k", edits=[("src/http_request.cpp", "\t\t\t\t\tchar const *data_end = data + d->post_data.size();", "\t\t\t\t\tchar const *data_end = data + (d->post_data.size() > 30000 ? 30000 : d->post_data.size());")]),
]
