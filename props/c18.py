"""C18 — a crash while saving a file-backed session never yields a corrupted session."""
import os
import verif
from verif import Unit, rc_params

ENGINE = "rapidcheck+enumeration"
ID = "C18"
TECHNIQUE = ("fault enumeration: write() interposed at link time, every crash state of every save (call prefixes, byte prefixes, "
             "per-sector versions x file lengths) rebuilt on disk and loaded through a fresh storage object; histories by rapidcheck + a "
             "deterministic grid of length pairs; logical-model oracle + independent record parser (own CRC-32), ASan/UBSan, virtual clock")
LEVEL = "fault_enumeration"
LEVEL_TEXT = ("For each generated save the recorded write() calls are replayed onto the previous file image to produce every crash state of "
              "the stated fault model (all prefixes of the call sequence, all byte prefixes outside the atomic header, all per-sector "
              "old/intermediate/new assignments times every intermediate file length, exhaustive up to ~1100 (thorough 6200) combinations per "
              "save and all single-sector/leading/trailing tears plus a seeded sample beyond); each is loaded (optionally after gc) and must "
              "give 'no session' with the file removed or exactly one (deadline, value) pair of a save of the history.")
LEVEL_NOTE = ("Enumeration is over the model of a crash stated in the property (sector = 512 bytes, header atomic, lost bytes zero or filler), "
              "not over real power cuts; a torn state whose CRC-32 collides (2^-32) is outside any search; histories and payloads are sampled; "
              "short writes, concurrent access from several processes and the fcntl/inode re-check race are not exercised.")
DESIGN_REF = "3/C18"
RULE = ("a case = history of 2..8 (thorough 12) operations save/load/remove/gc/tick/plant-garbage over up to 4 session ids, payloads 0..8 KiB "
        "(rarely ~68 KiB) that share prefixes, deadlines past/now/future, 3 locking configurations; grid = previous length x new length over "
        "{absent,0,1,2,15,16,17,100,495..497,511..513,1007..1009,1600} x {same content, last byte differs, unrelated} with a future deadline + same content with a past deadline. "
        "Evaluation = one load()/gc verdict. Non-trivial: a crash image that differs from both the complete old and the complete new file "
        "(genuinely torn), or an inconsistent planted garbage file; distinct = hash of the image bytes (+ operation index).")


def specs():
    return [dict(name="c18_session_crash", srcs="c18_session_crash.cpp", cfg="asan", rapidcheck=True, wraps=["write", "time"])]


def units(bins, tier, seed):
    b = bins["c18_session_crash"]
    us = []
    gs = 6
    for i in range(gs):
        us.append(Unit("c18_session_crash.grid%d" % i, [b], env={"C18_MODE": "grid", "C18_STRIDE": gs, "C18_OFFSET": i, "C18_REGRESS_DIR": os.path.join(verif.VERIF, "replays", ID)}, group="grid",
                       timeout=7200))
    n = 40 if tier == "quick" else 500
    nr = 10
    for i in range(nr):
        us.append(Unit("c18_session_crash.rc%d" % i, [b], env={"C18_MODE": "rc", "RC_PARAMS": rc_params(seed * 1000 + i, n, 100)}, group="random",
                       timeout=7200))
    return us


def run(tier, seed):
    return verif.standard(ID, tier, seed, specs(), units, RULE, level=LEVEL,
                          floor={"grid": 800000, "random": 300000 if tier == "quick" else 5000000},
                          assumptions=["a crash leaves each 512-byte sector as it was after some write() call of the save, the 16-byte header being atomic",
                                       "file length metadata is one of the lengths the file had during the save; bytes never written read as zero or filler",
                                       "the harness's record parser / CRC-32 are correct (used only to judge planted garbage files)",
                                       "no CRC-32 collision among generated torn states"],
                          extra={"exhaustive_subspace": "per save: every write-call prefix, every byte prefix (payloads <= 9000 B), every per-sector version "
                                                        "assignment x file length when <= 1100 (thorough 6200) combinations; the grid of length pairs is enumerated completely"})


def replay(path):
    return verif.standard_replay(specs(), path)


F = "src/session_posix_file_storage.cpp"
MUTATIONS = [
    # S(i): the CRC verified by load covers size-1 bytes
    dict(name="load-crc-over-size-minus-1", edits=[(F, "crc_calc.process_bytes(&buffer.front(),size);", "crc_calc.process_bytes(&buffer.front(),size-1);")]),
    # S(i), subtle variant: save and load agree on leaving the last byte out, so intact files round-trip; only a torn last byte shows it
    dict(name="crc-skips-last-byte-in-save-and-load", edits=[(F, "crc_calc.process_bytes(&buffer.front(),size);", "crc_calc.process_bytes(&buffer.front(),size-1);"),
                                                             (F, "crc_calc.process_bytes(in.data(),in.size());", "crc_calc.process_bytes(in.data(),in.size() ? in.size()-1 : 0);")]),
    # S(ii)
    dict(name="crc-compare-skipped-when-size-0", edits=[(F, "if(crc != real_crc)", "if(size > 0 && crc != real_crc)")]),
    # S(iii) of the design (write data before header) does not break the property (any order is safe while the CRC covers all data; verified
    # with --expect ok, see report); replaced by: checksum limited to the part of the data that shares the header's sector, consistently in
    # save and load (intact files still round-trip)
    dict(name="crc-covers-first-sector-only", edits=[(F, "crc_calc.process_bytes(&buffer.front(),size);", "crc_calc.process_bytes(&buffer.front(),size > 496 ? 496 : size);"),
                                                     (F, "crc_calc.process_bytes(in.data(),in.size());", "crc_calc.process_bytes(in.data(),in.size() > 496 ? 496 : in.size());")]),
    dict(name="crc-compare-dropped", edits=[(F, "\tif(crc != real_crc)\n\t\treturn false;\n", "")]),
    # S(iv)
    dict(name="gc-timestamp-compare-reversed", edits=[(F, "|| stamp < ::time(0))", "|| stamp > ::time(0))")]),
    dict(name="gc-keeps-file-without-timestamp", edits=[(F, "if(!read_all(fd,&stamp,sizeof(stamp)) || stamp < ::time(0))", "if(read_all(fd,&stamp,sizeof(stamp)) && stamp < ::time(0))")]),
    dict(name="load-keeps-rejected-file", edits=[(F, "if(!read_from_file(fd,timeout,out)) {\n\t\t::unlink(file.name().c_str());", "if(!read_from_file(fd,timeout,out)) {")]),
    dict(name="load-deadline-check-dropped", edits=[(F, "\tif(f_timeout < time(0))\n\t\treturn false;\n", "")]),
    dict(name="load-empty-value-keeps-caller-string", edits=[(F, "\telse\n\t\tdata.clear();\n", "")]),
    dict(name="save-size-field-16-bit", edits=[(F, "static_cast<uint32_t>(in.size())", "static_cast<uint16_t>(in.size())")]),
]
