"""C06 — session state carries over between requests exactly, never after it ended."""
import glob
import os
import verif
from verif import Unit, rc_params

ID = "C06"
TECHNIQUE = ("rapidcheck histories (requests of 1..3 browsers with cookie jars, clock advances to the renew threshold / deadline +-1, "
             "browser restarts, gc, attacker-edited cookies) interpreted against cppcms::session_interface over a session_pool "
             "and against a reference model (token -> snapshot) in lock-step, with a virtual clock (--wrap=time), a spy "
             "session_storage, directory/decoy observation for the file storage, under ASan/UBSan")
ENGINE = "rapidcheck"
LEVEL = "exploration"
LEVEL_TEXT = ("Each case draws a configuration (location client/server/both x storage memory/files/network x expire "
              "fixed/renew/browser x client_size_limit x timeout x encryptor x cookie expiration method) and a history of up to 30 "
              "(thorough 60) commands. Every request is checked: what it reads equals the model snapshot of the token its jar "
              "presents or nothing; identifiers are fresh 'I'+32 hex on creation/reset and retained otherwise; dead identifiers "
              "are probed at once and replayed later; the storage (spy / directory) holds exactly the live records with the "
              "model's deadlines and is never addressed with an identifier of another form; cookie life times equal the deadlines; "
              "exposed values are in the jar exactly when exposed.")
LEVEL_NOTE = ("The model encodes the documented rules plus three readings of undocumented corners (reset_session() starts a new "
              "fixed period; age/expiration/on_server set earlier in a request stay in force for that request's save after clear(); "
              "a session holding only attributes is a session). expose()/hide() of unset keys and on_server(true) with "
              "location=client are not generated (counted as excluded). Exactly at now == deadline and exactly at the 10 % threshold "
              "either answer is accepted. Deadlines stay below 2^31 (the network storage protocol carries the deadline through an "
              "int). Cookie authenticity is C05's subject: only one tampered-cookie family is replayed here. Requests are executed "
              "one at a time (no concurrency). Network-storage pools are shared by the cases of one process and restricted to 216 "
              "configurations (every tcp_storage pins a pthread key for the life of the thread). Memory and network storage are "
              "observed through a spy session_storage (for memory also unobserved through a cppcms::service), the file storage "
              "also through its directory and decoy files. A watchdog ends a process that makes no progress for 300 s (a hang alone "
              "is inconclusive, never a violation).")
DESIGN_REF = "3/C06"
RULE = ("evaluations = histories executed (class 'requests' counts the oracle-checked requests). Non-trivial = the history contains "
        "a request that read a non-empty session written by an earlier request after the clock advanced, or a write that moved a "
        "session between cookie and server storage, or a dead identifier (cleared / reset / moved) presented again, or a save carrying a key of 1022..1025+ bytes / a value "
        "of 2 MiB - 2 .. 2 MiB + 1 bytes (the edge of the packed entry header: classes key_len=*, value_len=*; keys of every "
        "length 1..1023 are generated, longer ones and values >= 2 MiB must be refused with the old state kept or carried over "
        "exactly). A deterministic grid unit runs {key 1023, 1024, 1025} x {value 0, 2 MiB - 1, 2 MiB, 2 MiB + 1} x every "
        "location/storage once per run. Distinct = hash of the serialized case.")


def specs():
    return [dict(name="c06_sessions", srcs="c06_sessions.cpp", cfg="asan", rapidcheck=True, wraps=["time"])]


QUICK = dict(local=6, net=2, cases=10000, net_cases=10000, maxlen=30)
THOROUGH = dict(local=12, net=4, cases=50000, net_cases=40000, maxlen=60)

def units(bins, tier, seed):
    b = bins["c06_sessions"]
    p = QUICK if tier == "quick" else THOROUGH
    us = []
    for i in range(p["local"]):
        us.append(Unit("c06_sessions.rc%d" % i, [b], env={"RC_PARAMS": rc_params(seed * 1000 + i, p["cases"], p["maxlen"]), "C06_MAXLEN": p["maxlen"],
                                                           "C06_STORAGE": "local"}, group="histories", timeout=1500 if tier == "quick" else 6000))
    for i in range(p["net"]):
        us.append(Unit("c06_sessions.net%d" % i, [b], env={"RC_PARAMS": rc_params(seed * 1000 + 100 + i, p["net_cases"], p["maxlen"]), "C06_MAXLEN": p["maxlen"],
                                                            "C06_STORAGE": "network"}, group="histories-network", timeout=1500 if tier == "quick" else 6000))
    # boundary grid, once per run: {key 1023, 1024, 1025} x {value 0, 2 MiB - 1, 2 MiB, 2 MiB + 1} x {client, server, both} x storages
    us.append(Unit("c06_sessions.grid", [b, "--grid"], group="grid", timeout=1500))
    # hand-kept regression cases (the defect fixed by 752e2e8 must stay fixed); failures keep the signature of the defect
    for j, case in enumerate(sorted(glob.glob(os.path.join(verif.VERIF, "replays", ID, "known-*.case")))):
        us.append(Unit("c06_sessions.regress%d" % j, [b, "--regress", case], group="regress"))
    return us


def floor(tier):
    p = QUICK if tier == "quick" else THOROUGH
    return {"histories": p["local"] * p["cases"], "histories-network": p["net"] * p["net_cases"], "regress": 1, "grid": 165}


def run(tier, seed):
    return verif.standard(ID, tier, seed, specs(), units, RULE, level=LEVEL, floor=floor,
                          assumptions=["time() is the only clock the session code consults (interposed with --wrap=time)",
                                       "the reference model in harness/c06_model.h reflects the documented session rules",
                                       "urandom-based identifiers do not collide by chance"])


def replay(path):
    return verif.standard_replay(specs(), path)


# sensitivity mutations (tools/sens.py -w 13 C06); each must be caught by the quick tier
MUTATIONS = [
    # S(i) reset / new session keeps the identifier it found in the cookie (session fixation)
    dict(name="sid-save-keeps-old-id-on-new-data", edits=[("src/session_sid.cpp", "\t\t\tstorage_->remove(id);\n\t\t\tid = get_new_sid();\n", "\t\t\tstorage_->remove(id);\n")]),
    # S(i') fresh identifier, but the old record stays in the storage
    dict(name="sid-save-old-record-not-removed", edits=[("src/session_sid.cpp", "\t\t\tstorage_->remove(id);\n\t\t\tid = get_new_sid();\n", "\t\t\tid = get_new_sid();\n")]),
    # S(ii) moving the session back into the cookie leaves the server copy usable
    dict(name="dual-save-server-copy-not-cleared", edits=[("src/session_dual.cpp", "\t\tif(!cookie.empty() && cookie[0]=='I') {\n\t\t\tserver_->clear(session);\n\t\t}\n", "")]),
    # S(iii) exposed bit lost on load
    dict(name="load-data-drops-exposed-bit", edits=[("src/session_interface.cpp", "\t\t\tent.exposed = p.exposed;\n", "\t\t\tent.exposed = false;\n")]),
    # S(iv) identifier syntax check: upper case hex accepted / shorter identifiers accepted
    dict(name="valid-sid-accepts-upper-case", edits=[("src/session_sid.cpp", "|| ('a'<=c && c<='f');", "|| ('a'<=c && c<='f') || ('A'<=c && c<='F');")]),
    dict(name="valid-sid-accepts-shorter", edits=[("src/session_sid.cpp", "\tif(cookie.size()!=33 || cookie[0]!='I')", "\tif(cookie.size()>33 || cookie.size()<2 || cookie[0]!='I')"),
                                                   ("src/session_sid.cpp", "\tfor(int i=1;i<33;i++) {", "\tfor(size_t i=1;i<cookie.size();i++) {")]),
    dict(name="valid-sid-hex-check-dropped", edits=[("src/session_sid.cpp", "\t\tif(!is_low_x_digit)\n\t\t\treturn false;\n", "\t\tif(!is_low_x_digit && c==0)\n\t\t\treturn false;\n")]),
    # own: reset_session() forgotten when deciding whether the session is new
    dict(name="save-ignores-reset", edits=[("src/session_interface.cpp", "\tnew_session_  = (data_copy_.empty() && !data_.empty()) || reset_;", "\tnew_session_  = (data_copy_.empty() && !data_.empty());")]),
    # own: clearing a session leaves the record (and the cookie) in place
    dict(name="sid-clear-keeps-record", edits=[("src/session_sid.cpp", "\tif(valid_sid(session.get_session_cookie(),id))\n\t\tstorage_->remove(id);\n\tsession.clear_session_cookie();", "\tsession.clear_session_cookie();")]),
    dict(name="save-empty-session-not-cleared", edits=[("src/session_interface.cpp", "\t\tif(get_session_cookie()!=\"\")\n\t\t\tstorage_->clear(*this);\n", "")]),
    # own: renew window 50 % instead of 10 %
    dict(name="renew-window-half-period", edits=[("src/session_interface.cpp", "if(delta < timeout_val_ * 0.1) {", "if(delta < timeout_val_ * 0.5) {")]),
    # own: fixed sessions are prolonged by every write
    dict(name="fixed-deadline-moves-on-write", edits=[("src/session_interface.cpp", "\tif(how_==browser || how_==renew || (how_==fixed && new_session_))", "\tif(how_==browser || how_==renew || how_==fixed)")]),
    # own: cookie of an existing fixed session gets the full period again (cookie outlives the session)
    dict(name="fixed-cookie-age-full-period", edits=[("src/session_interface.cpp", "\tif(how_==renew || ( how_==fixed && new_session_ ))", "\tif(how_==renew || how_==fixed)")]),
    # regression of the defect fixed by 752e2e8: cookies of exposed keys are sent only when the key changed
    dict(name="exposed-cookies-only-sent-on-change-regression", edits=[("src/session_interface.cpp", "\t\tif(p->second.exposed) {\n\t\t\tset_session_cookie(cookie_age(),p->second.value,p->first);",
          "\t\tif(p->second.exposed && (force || p2==data_copy_.end() || !p2->second.exposed || p->second.value!=p2->second.value)){\n\t\t\tset_session_cookie(cookie_age(),p->second.value,p->first);")]),
    # own: the cookie of an exposed key gets the full period instead of the session cookie's remaining life time
    dict(name="exposed-cookie-age-full-period", edits=[("src/session_interface.cpp", "\t\t\tset_session_cookie(cookie_age(),p->second.value,p->first);", "\t\t\tset_session_cookie(how_==browser ? 0 : timeout_val_,p->second.value,p->first);")]),
    # own: off-by-one in the bounds check of the packed format (last entry)
    dict(name="load-data-bound-off-by-one", edits=[("src/session_interface.cpp", "\t\tif(end - begin >= int(p.key_size + p.data_size)) {", "\t\tif(end - begin > int(p.key_size + p.data_size)) {")]),
    # own: boundary of the packed entry header: a key of exactly 1024 bytes / a value of exactly 2 MiB wraps to size 0
    dict(name="packed-key-size-1024-accepted", edits=[("src/session_interface.cpp", "\t\tif(ks >=1024) ", "\t\tif(ks > 1024) ")]),
    dict(name="packed-value-size-2MiB-accepted", edits=[("src/session_interface.cpp", "\t\tif(ds >= 1024 * 1024 * 2)", "\t\tif(ds > 1024 * 1024 * 2)")]),
    # own: the largest key that fits is refused
    dict(name="packed-key-size-1023-refused", edits=[("src/session_interface.cpp", "\t\tif(ks >=1024) ", "\t\tif(ks >=1023) ")]),
    # own: file storage does not delete
    dict(name="file-storage-remove-noop", edits=[("src/session_posix_file_storage.cpp", "\tif(file.fd() >= 0)\n\t\t::unlink(file.name().c_str());\n}\n\nbool session_file_storage::read_timestamp", "\tif(file.fd() < 0)\n\t\t::unlink(file.name().c_str());\n}\n\nbool session_file_storage::read_timestamp")]),
    # own: session server ignores remove requests (network storage)
    dict(name="tcp-server-remove-noop", edits=[("src/tcp_cache_server.cpp", "\t\tsessions_->remove(sid);\n", "")]),
]
