"""C07 — the cache never returns invalidated, expired or superseded data."""
import glob, os, shutil
import verif
from verif import Unit, rc_params

ID = "C07"
TECHNIQUE = ("model-based testing: exhaustive enumeration of all short operation histories over a 2-key/3-trigger alphabet + rapidcheck "
             "random histories (base_cache and cache_interface with pages, frames and nested trigger recorders) run in lock-step with "
             "an independent reference model under a virtual clock, ASan/UBSan")
LEVEL = "exploration"
LEVEL_TEXT = ("Every history of 3 operations (thorough: 4; one more over a reduced alphabet) over keys {a,b} x triggers {a,b,t} x deadlines {past,now,now+1,far} "
              "is executed on thread_shared and process_shared back-ends and compared step by step (value, trigger set, deadline, stats) "
              "with a reference map; long random histories over alphabets of 2..256 keys add limits, binary/empty/long keys, clock "
              "advances and page-building sessions through cache_interface whose recorded trigger sets are read back through the base "
              "interface.")
LEVEL_NOTE = ("Sampling beyond the enumerated depth; single-threaded histories only (C09 covers concurrency); with a size limit in play a miss on a "
              "live entry is accepted here (C08 decides eviction order); process_shared runs use one 256 MiB segment per process where "
              "memory pressure is excluded by a counting argument, else the model falls back to 'may have been evicted'.")
DESIGN_REF = "3/C07"
RULE = ("case = (back-end, limit, operation history). enumeration: all histories of fixed depth (see exhaustive_subspace) over store(k,T,deadline)/rise/remove/"
        "clear/tick(/fetch when limited) with a sweep fetch of every key after every step; random: 1..200 operations over 2..256 keys "
        "(base) or 4..100 interface operations (page_begin/fetch_page, write, add_trigger, fetch_frame, store_frame, recorder "
        "push/pop+store/drop, reset, store_page, rise, clear, tick). Non-trivial: the history contains a fetch of a key that follows a "
        "rise/remove/clear/expiry/re-store affecting that key, or a store whose key is a trigger of another live entry. Distinct = hash "
        "of the serialised case.")

SEG_KIB = 262144   # process_shared segment for this check (see LEVEL_NOTE)


def specs():
    return [dict(name="c07_cache", srcs="c07_cache.cpp", cfg="asan", rapidcheck=True, wraps=["time"], opt="-O2")]


def units(bins, tier, seed):
    b = bins["c07_cache"]
    us = []
    thorough = tier == "thorough"
    # --- exhaustive part
    plans = [  # (backend, limit, depth, reduced alphabet, shards)
        (0, 0, 4 if thorough else 3, 0, 12 if thorough else 1),
        (1, 0, 4 if thorough else 3, 0, 8 if thorough else 1),
        (0, 1, 4 if thorough else 3, 0, 4 if thorough else 1),
        (0, 2, 4 if thorough else 3, 0, 4 if thorough else 1),
        (1, 2, 4 if thorough else 3, 0, 4 if thorough else 1),
    ]
    plans.append((0, 0, 5, 1, 32) if thorough else (0, 0, 4, 1, 8))
    if not thorough:
        plans.append((1, 0, 4, 1, 4))
    for (be, lim, depth, red, shards) in plans:
        for i in range(shards):
            us.append(Unit("c07_cache.enum-b%d-l%d-d%d-%d" % (be, lim, depth, i), [b],
                           env={"C07_MODE": "enum", "C07_BACKEND": be, "C07_SEG_KIB": SEG_KIB, "C07_LIMIT": lim, "C07_DEPTH": depth,
                                "C07_REDUCED": red, "C07_STRIDE": shards, "C07_OFFSET": i}, group="enum", timeout=3000))
    # --- random part
    nb = 6000 if not thorough else 40000
    ni = 3000 if not thorough else 20000
    k = 0
    for (be, cnt) in ((0, 3 if not thorough else 5), (1, 1 if not thorough else 2)):
        for i in range(cnt):
            us.append(Unit("c07_cache.base-b%d-%d" % (be, i), [b, "--only", "base"],
                           env={"C07_BACKEND": be, "C07_SEG_KIB": SEG_KIB, "RC_PARAMS": rc_params(seed * 1000 + k, nb, 200)}, group="random-base", timeout=3000))
            k += 1
    for (be, cnt) in ((0, 2 if not thorough else 4), (1, 1 if not thorough else 2)):
        for i in range(cnt):
            us.append(Unit("c07_cache.iface-b%d-%d" % (be, i), [b, "--only", "iface"],
                           env={"C07_BACKEND": be, "C07_SEG_KIB": SEG_KIB, "RC_PARAMS": rc_params(seed * 1000 + 100 + k, ni, 200)}, group="random-iface", timeout=3000))
            k += 1
    # one unit of each kind first (the evidence keeps the samples of the first units), the long enumeration shards right after
    first = [u for u in us if u.name.endswith(("iface-b0-0", "base-b0-0", "iface-b1-0", "base-b1-0"))]
    return first + [u for u in us if u not in first]


def floor(tier):
    if tier == "thorough":
        return {"enum": 32 ** 5 + 2 * 48 ** 4 + 3 * 50 ** 4, "random-base": 7 * 40000, "random-iface": 6 * 20000}
    return {"enum": 2 * 32 ** 4 + 2 * 48 ** 3 + 3 * 50 ** 3, "random-base": 4 * 6000, "random-iface": 3 * 3000}


def regressions(res, units_, bins):
    """hand-kept regression cases (replays/C07/reg-*.case) are replayed on every run; the signature comes from the replay itself"""
    import re, subprocess
    for p in sorted(glob.glob(os.path.join(verif.VERIF, "replays", ID, "reg-*.case"))):
        res.evaluations += 1
        name = verif.find_harness(p, list(bins.keys())) or sorted(bins.keys())[0]
        env = verif.san_env()
        env["VERIF_SCRATCH"] = verif.scratch_dir("reg")
        env.pop("VERIF_REPORT", None)
        r = subprocess.run([bins[name], "--replay", p], env=env, stdout=subprocess.PIPE, stderr=subprocess.STDOUT, text=True, errors="replace",
                           cwd=env["VERIF_SCRATCH"], timeout=600)
        shutil.rmtree(env["VERIF_SCRATCH"], ignore_errors=True)
        if r.returncode != 0:
            m = re.search(r"REPLAY-FAIL (\S+?): ", r.stdout)
            sig = m.group(1) if m else "crash:regression:" + os.path.basename(p)
            res.add_failure(sig, p, "regression case %s fails: %s" % (os.path.basename(p), r.stdout[-1500:]), unit="regression")


def run(tier, seed):
    return verif.standard(ID, tier, seed, specs(), units, RULE, level=LEVEL, floor=floor, post=regressions,
                          assumptions=["the reference model in harness/c07_model.h (SimpleModel) is correct",
                                       "time() is the only clock the cache consults (interposed at link time)",
                                       "tests/dummy_api.h provides a faithful in-memory connection for http::context"],
                          extra={"exhaustive_subspace": "keys {a,b}, triggers {a,b,t}, clock steps {1,2}, sweep fetch of both keys and stats after every step. "
                                 "quick: all histories of depth 3 over the full alphabet (5 trigger subsets x deadlines {now-1, now, now+1, now+1000}) "
                                 "on thread_shared and process_shared without limit and with limits 1 and 2 (fetch added to the alphabet), plus "
                                 "depth 4 on thread_shared and process_shared over the reduced alphabet (no 'own key listed explicitly' subsets, deadlines {now-1, "
                                 "now, now+1000}). thorough: depth 4 over the full alphabet in all five configurations, depth 5 over the "
                                 "reduced alphabet on thread_shared"})


def replay(path):
    return verif.standard_replay(specs(), path)


# sensitivity mutations: (file, old, new) edits on a scratch copy; each must be caught by the quick tier
MUTATIONS = [
    # S(i) store: the key itself is no longer attached as a trigger
    dict(name="store-skips-own-key-trigger", edits=[("src/cache_storage.cpp", "if(triggers_in.find(key)==triggers_in.end()){\n\t\t\t\tadd_trigger(main,key);\n\t\t\t}", "")]),
    # S(ii) delete_node: the entry stays linked in the trigger lists
    dict(name="delete_node-keeps-trigger-links", edits=[("src/cache_storage.cpp", "\t\t\ti->first->second.erase(i->second);\n", "")]),
    # S(iii) fetch: expiry comparison off by two seconds
    dict(name="fetch-expiry-off-by-two", edits=[("src/cache_storage.cpp", "p->second.timeout->first < now) {", "p->second.timeout->first <= now - 2) {")]),
    # S(iv) cache_interface::fetch does not propagate the fetched frame's triggers to the page
    dict(name="iface-fetch-drops-inherited-triggers", edits=[("src/cache_interface.cpp", "\t\t\tfor(p=new_trig.begin();p!=new_trig.end();++p)\n\t\t\t\tadd_trigger(*p);\n", "")]),
    # own: store no longer removes the entry it replaces
    dict(name="store-keeps-replaced-entry", edits=[("src/cache_storage.cpp", "\t\t\tif(main!=primary.end())\n\t\t\t\tdelete_node(main);\n\t\t\tif(size > size_limit())", "\t\t\tif(size > size_limit())")]),
    # own: rise invalidates only the first entry attached to the trigger
    dict(name="rise-kills-first-entry-only", edits=[("src/cache_storage.cpp", "\t\t\tkill_list.push_back(*it);\n", "\t\t\tkill_list.push_back(*it); break;\n")]),
    # own: off by one the other way - an entry whose deadline is exactly now is treated as expired
    dict(name="fetch-expiry-le-now", edits=[("src/cache_storage.cpp", "p->second.timeout->first < now) {", "p->second.timeout->first <= now) {")]),
    # own: triggers added while a recorder is active are not recorded
    dict(name="iface-add_trigger-skips-recorders", edits=[("src/cache_interface.cpp", "\tfor(std::set<triggers_recorder *>::iterator p=recorders_.begin();p!=recorders_.end();++p)\n\t\t(*p)->add(t);\n", "")]),
    # own: store_page forgets to make the page depend on its own key
    dict(name="iface-store_page-drops-own-key", edits=[("src/cache_interface.cpp", "\tadd_trigger(key);\n\tcache_module_->store(r_key", "\tcache_module_->store(r_key")]),
    # reverts the fix of the finding shm:failed-store-keeps-old-value (a store refused for lack of shared memory left the old value)
    dict(name="revert-fix-failed-store-keeps-old-value", edits=[("src/cache_storage.cpp", "\t\t\tremove(key);\n\t\t\treturn;", "\t\t\treturn;")]),
]
