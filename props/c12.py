"""C12 — uploaded form data is reconstructed exactly under any chunking, within limits."""
import verif
from verif import Unit, rc_params

ID = "C12"
ENGINE = "rapidcheck+enumeration"
TECHNIQUE = ("rapidcheck-generated multipart/urlencoded bodies with boundary look-alikes, arbitrary chunkings (all pairs of cut points for short "
             "bodies) fed to multipart_parser directly and end-to-end through an in-process service (HTTP/SCGI/FastCGI, read caps, setbuf, "
             "content filters, byte-exact limits); round-trip oracle against the generated part list; damaged/over-limit bodies must be refused")
LEVEL = "exploration"
LEVEL_TEXT = ("Part lists (names, file names, MIME types, contents made of random bytes, proper prefixes of the delimiter, the boundary "
              "without CRLF, CR/LF/'-' runs; boundaries from the RFC 2046 alphabet, 1..70 chars) are encoded browser-style and must come back "
              "exactly — from the parser under every generated chunking (and every pair of cut points for short bodies) and from the "
              "application (post()/files()/filter callbacks) through all three front-ends with limits at size and size+1; seven damage "
              "families and limit = size-1 must give 400/413 with the handler never called. Temp files must vanish.")
LEVEL_NOTE = ("Sampling plus exhaustive 2-cut enumeration of a few short bodies per run. Browser-shaped framing only (no preamble, final CRLF), "
              "as real callers produce it. Trusts the harness encoder and the echo de-serialiser.")
DESIGN_REF = "3/C12"
RULE = ("case = (boundary, part list with header style, chunk sizes / read caps, front-end, filter kind, setbuf, file_in_memory_limit, "
        "limit placement, damage kind). Non-trivial (parser/e2e): some part content contains a proper prefix (>= 3 bytes) of the delimiter "
        "and a cut falls inside such a prefix or inside a real delimiter; reject: every case. Distinct = hash of the case.")


def specs():
    return [dict(name="c12_upload", srcs="c12_upload.cpp", cfg="asan", rapidcheck=True, wraps=["readv", "writev"])]


def units(bins, tier, seed):
    b = bins["c12_upload"]
    us = []
    q = tier == "quick"
    for i in range(5 if q else 6):
        us.append(Unit("c12_upload.parser%d" % i, [b], env={"C12_MODE": "parser", "RC_PARAMS": rc_params(seed * 1000 + i, 4000 if q else 35000, 100)}, group="parser", timeout=7200))
    for i in range(2):
        us.append(Unit("c12_upload.enum%d" % i, [b], env={"C12_MODE": "enum", "C12_ENUM": 4 if q else 30, "VERIF_SEED": seed * 10 + i}, group="enum", timeout=7200))
    for i in range(4 if q else 4):
        us.append(Unit("c12_upload.e2e%d" % i, [b], env={"C12_MODE": "e2e", "RC_PARAMS": rc_params(seed * 1000 + 50 + i, 1000 if q else 6000, 100)}, group="e2e", timeout=7200))
    for i in range(3 if q else 4):
        us.append(Unit("c12_upload.reject%d" % i, [b], env={"C12_MODE": "reject", "RC_PARAMS": rc_params(seed * 1000 + 80 + i, 1000 if q else 5000, 100)}, group="reject", timeout=7200))
    return us


def run(tier, seed):
    return verif.standard(ID, tier, seed, specs(), units, RULE, level=LEVEL,
                          floor={"parser": 15000, "enum": 2000, "e2e": 3000, "reject": 2500},
                          assumptions=["harness multipart encoder is browser-shaped and correct", "echo application serialises files()/post() faithfully (own hex writer)"])


def replay(path):
    return verif.standard_replay(specs(), path)


MUTATIONS = [
    dict(name="partial-match-not-reemitted", edits=[("private/multipart_parser.h", "\t\t\t\t\t\t\t\t\tstd::streamsize s=out->sputn(this_boundary,position_);", "\t\t\t\t\t\t\t\t\tstd::streamsize s=position_ > 5 ? position_ : out->sputn(this_boundary,position_);")]),
    dict(name="restart-ignores-cr", edits=[("private/multipart_parser.h", "\t\t\t\t\t\t\t\t\tif(c == boundary_[0])\n\t\t\t\t\t\t\t\t\t\tposition_=1;", "")]),
    dict(name="eof-accepts-trailing-bytes", edits=[("private/multipart_parser.h", "\t\t\t\t\t\tif(buffer + 1 == buffer_end) {\n\t\t\t\t\t\t\tbuffer++;\n\t\t\t\t\t\t\treturn eof;\n\t\t\t\t\t\t}\n\t\t\t\t\t\telse\n\t\t\t\t\t\t\treturn parsing_error;", "\t\t\t\t\t\tbuffer=buffer_end;\n\t\t\t\t\t\treturn eof;")]),
    # ("length mismatch at eof accepted" is an equivalent mutant: bytes after the final boundary are a parse error anyway)
    dict(name="missing-final-boundary-accepted", edits=[("src/http_request.cpp", "\t\t\tif(begin==end && d->read_size==d->content_length && r!=multipart_parser::eof) {\n\t\t\t\treturn 400;\n\t\t\t}", "")]),
    dict(name="multipart-limit-off-by-one", edits=[("src/http_request.cpp", "if(d->content_length > d->limits.multipart_form_data_limit())", "if(d->content_length > d->limits.multipart_form_data_limit() + 1)")]),
    dict(name="crlfcrlf-position-not-reset", edits=[("private/multipart_parser.h", "\t\t\t\t\t\t\theader_.clear();\n\t\t\t\t\t\t\tposition_ = 0;\n\t\t\t\t\t\t\tstate_ = expecting_separator_boundary;", "\t\t\t\t\t\t\theader_.clear();\n\t\t\t\t\t\t\tposition_ = (files_.size() == 2 ? 1 : 0);\n\t\t\t\t\t\t\tstate_ = expecting_separator_boundary;")]),
    dict(name="raw-filter-chunk-size", edits=[("src/http_request.cpp", "static_cast<raw_content_filter *>(d->filter)->on_data_chunk(&d->post_data[0],n);", "static_cast<raw_content_filter *>(d->filter)->on_data_chunk(&d->post_data[0],n > 1500 ? n - 1 : n);")]),
    dict(name="urlencoded-plus-not-decoded-in-names", edits=[("src/http_request.cpp", "\t\tstd::string name=util::urldecode(p,name_end);", "\t\tstd::string name(p,name_end);")]),
]
