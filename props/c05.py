"""C05 — client-side sessions are accepted only if issued by this server and unexpired."""
import verif
from verif import Unit, rc_params

ID = "C05"
TECHNIQUE = ("rapidcheck over (encryptor configuration, near-miss configuration, virtual clock, saves) with exhaustive attacker "
             "families per issued cookie (every bit flip / truncation / block swap / splice / transplant / character substitution, "
             "random strings, MAC-valid malformed cipher texts built by an OpenSSL reference); oracle = model of the cookies issued "
             "per key material + strict base64url decoder + OpenSSL HMAC/AES-CBC reference of the wire format, under ASan/UBSan")
ENGINE = "rapidcheck"
LEVEL = "exploration"
LEVEL_TEXT = ("session_pool(json) -> session_cookies driven through session_interface + cookie adapter with a virtual clock "
              "(--wrap=time). Every load of a genuine, derived or arbitrary cookie is compared with the set of (cipher text -> "
              "payload, expiry) issued under the same key material: success implies membership and expiry >= now, a cookie that "
              "strictly decodes to a cipher text never issued must be rejected and cleared, an unexpired issued one must load "
              "exactly. For payloads whose cipher text is <= 420 bytes all single-bit flips, truncations, block swaps and "
              "byte/block splices are enumerated; larger ones are sampled at both ends and at random positions.")
LEVEL_NOTE = ("A forgery that needs a MAC collision or key search is beyond any search; 'reveals nothing' is tested only as: no "
              "aligned 16-byte block (IV block included) repeats among cipher texts of equal / common-prefix payloads issued by the same and by "
              "fresh encryptor objects under interleavings of load and save (load X, save P twice; two loads; failed load; ...) and no 8 "
              "payload bytes occur verbatim in the cipher text. IVs come from /dev/urandom inside the code under test, so cipher "
              "texts (not verdicts) differ between replays. Keys derived by the undocumented KDF (aesN with a key of another "
              "length) get no reference-made cookies. Cookie texts that are not canonical base64url (cppcms' decoder maps foreign "
              "characters to 'A' and ignores trailing bits) are only required to return genuine data when accepted.")
DESIGN_REF = "3/C05"
RULE = ("case = configuration in {hmac-md5..sha512 via encryptor/hmac fields, aes128/192/256 with exact cbc+mac key, derivation "
        "key, split cbc/hmac keys; keys 16..160 bytes} x near-miss configuration (key bit flip, other algorithm, other key, "
        "other encryptor kind with the same bytes, key +-1 byte) x now x 2..4 saves (payload 0..256 B quick / 0..64 KiB thorough, "
        "biased to AES block edges +-1; expiry now-2..now+2, +-1e5, +-2e9). evaluations = oracle-checked loads. Non-trivial = a "
        "derived cookie that strictly decodes to a never-issued cipher text which passes the size checks (>= digest, for AES >= "
        "digest+2 blocks and a block multiple) so that only the MAC comparison can reject it, or a genuine cookie loaded within "
        "+-2 s of its expiry, or a MAC-valid malformed cipher text made with the server's keys. Distinct = hash(key material, "
        "clock, cookie text).")


def specs():
    return [dict(name="c05_sessions", srcs="c05_sessions.cpp", cfg="asan", rapidcheck=True, wraps=["time"])]


QUICK = dict(shards=14, cases=160, cfg_cases=400)
THOROUGH = dict(shards=16, cases=420, cfg_cases=4000)


def units(bins, tier, seed):
    b = bins["c05_sessions"]
    p = QUICK if tier == "quick" else THOROUGH
    us = []
    for i in range(p["shards"]):
        us.append(Unit("c05_sessions.rc%d" % i, [b, "--only", "cookies"],
                       env={"RC_PARAMS": rc_params(seed * 1000 + i, p["cases"], 100)}, group="cookies", timeout=3000))
    us.append(Unit("c05_sessions.cfg", [b, "--only", "config"], env={"RC_PARAMS": rc_params(seed * 1000 + 99, p["cfg_cases"], 100)}, group="config"))
    return us


def floor(tier):
    p = QUICK if tier == "quick" else THOROUGH
    return {"cookies": p["shards"] * p["cases"] * 1500, "config": p["cfg_cases"]}


def run(tier, seed):
    return verif.standard(ID, tier, seed, specs(), units, RULE, level=LEVEL, floor=floor,
                          assumptions=["OpenSSL HMAC()/EVP AES-CBC and the harness's strict base64url decoder are correct",
                                       "time() is the only clock session_cookies consults (interposed with --wrap=time)",
                                       "a MAC collision / key recovery does not occur by chance",
                                       "host is little-endian with 8-byte time_t (wire format reference)"],
                          extra={"exhaustive_subspace": "per issued cookie with cipher text <= 420 B: every single-bit flip, every "
                                                        "truncation, every aligned block swap, every byte-boundary splice of two cookies"})


def replay(path):
    return verif.standard_replay(specs(), path)


# sensitivity mutations (tools/sens.py -w 7 C05); each must be caught by the quick tier
MUTATIONS = [
    # S(i) MAC comparison looks at n-1 bytes (used by the hmac and the aes encryptor)
    dict(name="equal-compares-n-1-bytes", edits=[("src/hmac_encryptor.cpp", "for(size_t i=0;i<n;i++) {", "for(size_t i=0;i+1<n;i++) {")]),
    # S(ii) MAC verified over real_size - block_size in decrypt only
    dict(name="aes-decrypt-mac-skips-last-block", edits=[("src/aes_encryptor.cpp", "signature.append(cipher.c_str(),real_size);", "signature.append(cipher.c_str(),real_size - block_size);")]),
    # S(ii') the same, consistently on both sides: the last encrypted block is not authenticated (round trip still works)
    dict(name="aes-mac-skips-last-block-both-sides", edits=[
        ("src/aes_encryptor.cpp", "signature.append(cipher.c_str(),real_size);", "signature.append(cipher.c_str(),real_size - block_size);"),
        ("src/aes_encryptor.cpp", "signature.append(&output[0],block_size);", "signature.append(&output[0],block_size - cbc_block_size);")]),
    # the IV block is not authenticated (both sides)
    dict(name="aes-mac-skips-iv-block-both-sides", edits=[
        ("src/aes_encryptor.cpp", "signature.append(cipher.c_str(),real_size);", "signature.append(cipher.c_str() + block_size,real_size - block_size);"),
        ("src/aes_encryptor.cpp", "signature.append(&output[0],block_size);", "signature.append(&output[cbc_block_size],block_size - cbc_block_size);")]),
    # S(iii) expiry comparison
    dict(name="expiry-lt-becomes-le", edits=[("src/session_cookies.cpp", "if(timeout < time(0)) {", "if(timeout <= time(0)) {")]),
    dict(name="expiry-check-removed", edits=[("src/session_cookies.cpp", "if(timeout < time(0)) {", "if(false && timeout < time(0)) {")]),
    dict(name="expiry-one-second-grace", edits=[("src/session_cookies.cpp", "if(timeout < time(0)) {", "if(timeout + 1 < time(0)) {")]),
    # S(iv) block multiple test skipped
    dict(name="aes-block-multiple-test-skipped", edits=[("src/aes_encryptor.cpp", "if(real_size % block_size != 0) {", "if(false && real_size % block_size != 0) {")]),
    # own: inner length may exceed what the blocks hold (forgets the IV block)
    dict(name="aes-inner-length-bound-forgets-iv-block", edits=[("src/aes_encryptor.cpp", "if(size > real_size - block_size - sizeof(size)) {", "if(size > real_size - sizeof(size)) {")]),
    # own: decrypted text shorter than the expiry field passes (off by one)
    dict(name="short-plain-off-by-one", edits=[("src/session_cookies.cpp", "if(tmp.size() < sizeof(time_t)) {", "if(tmp.size() + 1 < sizeof(time_t)) {")]),
    # own: constant IV instead of a nonce
    dict(name="aes-constant-iv", edits=[("src/aes_encryptor.cpp", "\t\tcbc_->set_nonce_iv();", "\t\t{ char z[16] = {0}; cbc_->set_iv(z,16); }")]),
    # own (after seeded/C05-1): decrypt seeds the cbc object's IV with the client's first block; cbc::set_iv also sets the encryption IV
    dict(name="aes-decrypt-sets-iv-from-cookie", edits=[("src/aes_encryptor.cpp", "\tcbc_->decrypt(cipher.c_str(),&full_plain[0],real_size);", "\tcbc_->set_iv(cipher.c_str(),block_size);\n\tcbc_->decrypt(cipher.c_str(),&full_plain[0],real_size);")]),
    # own: hmac encryptor verifies before checking there is room for a digest -> shorter comparison
    dict(name="hmac-compares-half-digest", edits=[("src/hmac_encryptor.cpp", "bool ok = equal(&mac[0],cipher.c_str() + message_size,digest_size);", "bool ok = equal(&mac[0],cipher.c_str() + message_size,digest_size/2);")]),
    # own: cleared cookie forgotten on a bad MAC
    dict(name="bad-mac-cookie-not-cleared", edits=[("src/session_cookies.cpp", "is not valid\";\n\t\tsession.clear_session_cookie();", "is not valid\";")]),
]
