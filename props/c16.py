"""C16 — digests, HMAC and CBC ciphers compute the standard functions for all inputs."""
import glob, os
import verif
from verif import Unit, rc_params

ENGINE = "enumeration+rapidcheck"
ID = "C16"
TECHNIQUE = ("differential testing against an independent implementation: a seed-independent grid (every message length 0..4096 x 6 digests, "
             "every HMAC key length 0..3 blocks+1, every pair of append cut points, every AES block count 1..64) plus rapidcheck cases "
             "(chunkings, object re-use, long messages, session-cookie ciphers, hex keys); oracle = OpenSSL EVP_Digest / HMAC() / "
             "EVP_aes_*_cbc and reference cookie/key codecs, third opinion by Python's built-in hash modules; ASan/UBSan on exact-size buffers")
LEVEL = "exploration"
LEVEL_TEXT = ("All message lengths 0..4096 for md5/sha1/sha224/sha256/sha384/sha512, all HMAC key lengths 0..3 block sizes+1, all pairs of cut "
              "positions of a 2-block message, all compositions of messages of 0..10 bytes into <=6 appends and all AES-CBC block counts 1..64 "
              "are enumerated on every run; chunkings, re-use of one object for 1..5 messages, long messages (up to 1 MiB, multi-MiB in the "
              "grid), the hmac/aes session ciphers and hexadecimal key parsing are sampled with rapidcheck.  Every result is compared with "
              "libcrypto's EVP interface (cppcms uses bundled MD5/SHA-1, its own RFC 2104 code and the low-level SHA*/AES_* entry points).")
LEVEL_NOTE = ("For a cbc object re-used without set_iv between two messages crypto.h promises nothing explicit: continuing the chain and "
              "restarting from the configured IV are both accepted for the first block (the implementation chains).  SHA-2 and AES come from the same libcrypto on both sides (different entry points), so for them the wrapper logic (reset, clone, block "
              "size, key schedule selection, IV handling) is what is decided, not the primitive; Python's non-OpenSSL _md5/_sha1/_sha256/_sha512 "
              "modules re-check a sample.  SHA-1 messages >= 512 MiB are excluded by construction (recorded finding: 32-bit length counter), "
              "single append() calls >= 256 MiB, big-endian hosts (the aes cookie stores its length in host byte order) and the gcrypt "
              "back-end (not compiled here) are not exercised.")
DESIGN_REF = "3/C16"
RULE = ("A case = (algorithm, digest|hmac, way of constructing the object, key, 1..5 messages each with its list of append cut points) or "
        "(aes type, key, iv, plaintext blocks, call segmentation) or (aes type, way of creating the object, key, history of 1..6 messages "
        "each preceded by set_iv / nothing / set_iv twice / set_key(same key), which of encrypt-only / decrypt-only / both-directions objects "
        "live through it) or (session cipher kind, keys, plaintexts) or (hex key text, entry point). "
        "Non-trivial (hash): some message length is congruent to 55..64 mod 64 (111..128 mod 128 for sha384/512), or the HMAC key is longer "
        "than the block, or the object is used for a second message; cbc/cookie/key cases: every executed case; cbc re-use histories: "
        "those with at least two messages; huge: six streamed messages "
        "of 2^29-65..2^29+5 bytes (2^32 bits: the carry of the bundled md5/sha1 length counters).  Distinct = hash of the serialised case.  "
        "Grid and huge shards are disjoint; random shards draw from one space (largest shard counted).")

GRID_SHARDS = 8


def specs():
    return [dict(name="c16_crypto", srcs="c16_crypto.cpp", cfg="asan", rapidcheck=True)]


SHA1_LEN_SIG = "sha1:length-counter-32bit@message>=512MiB"


CBC_REKEY_SIG = "cbc:set_key-twice-accepted-but-old-key-schedule-kept"
KNOWN_CASES = {"sha1len": SHA1_LEN_SIG, "cbcrekey": CBC_REKEY_SIG}


def _recorded(sig):
    """The regression case of a finding runs once known_findings.json carries it (known: reported as KNOWN-FINDING, exit 0; fixed: must pass).
    Until then the class is only excluded by construction; the saved cases are replays/C16/known-*.case."""
    return any(verif.sig_match(k.get("signature", ""), sig) for k in verif.load_known(ID))


def counts(tier):
    # (random shards, rapidcheck cases per property and shard)
    return (8, 20000) if tier == "quick" else (14, 150000)


def units(bins, tier, seed):
    b = bins["c16_crypto"]
    grid, rnd, huge = [], [], []
    for i in range(GRID_SHARDS):
        grid.append(Unit("c16_crypto.grid%d" % i, [b], env={"C16_MODE": "grid", "C16_STRIDE": GRID_SHARDS, "C16_OFFSET": i,
                                                             "C16_BIG_MIB": 1 if tier == "quick" else 24, "C16_SAMPLES": 1,
                                                             "C16_PYSAMPLE": "pysample.txt"}, group="grid"))
    nr, n = counts(tier)
    # rapidcheck's lazily evaluated generators give almost every allocation a new 30-frame stack: ASan's stack depot then grows by
    # ~15 KB per case (1.3 GB per shard).  Eight frames per allocation stack and a 64 MB quarantine keep a shard below 300 MB.
    asan = verif.san_env()["ASAN_OPTIONS"] + ":malloc_context_size=8:quarantine_size_mb=64"
    for i in range(nr):
        rnd.append(Unit("c16_crypto.rc%d" % i, [b], env={"C16_MODE": "rc", "RC_PARAMS": rc_params(seed * 1000 + i, n, 200), "C16_SAMPLES": 4,
                                                          "C16_PYSAMPLE": "pysample.txt", "ASAN_OPTIONS": asan}, group="random", timeout=4 * 3600))
    # streamed messages around 2^29 bytes = 2^32 bits (length counters of the bundled md5 / sha1)
    for i in range(6):
        huge.append(Unit("c16_crypto.huge%d" % i, [b], env={"C16_MODE": "huge", "C16_HUGE_IDX": i, "C16_SAMPLES": 1}, group="huge", timeout=4 * 3600))
    for which, sig in sorted(KNOWN_CASES.items()):
        if _recorded(sig):
            huge.append(Unit("c16_crypto.known_%s" % which, [b], env={"C16_MODE": "known", "C16_KNOWN": which, "C16_SAMPLES": 1}, group="known", timeout=4 * 3600))
    us = list(huge)      # longest first; samples of random and grid units interleaved
    for i in range(max(len(grid), len(rnd))):
        us += rnd[i:i + 1] + grid[i:i + 1]
    return us


# ---- third opinion: Python's own (non-OpenSSL) hash modules on a sample written by the harness -------------------
def _py_hashes():
    import hashlib
    table = {}
    try:
        import _md5, _sha1
        table["md5"], table["sha1"] = _md5.md5, _sha1.sha1
    except ImportError:
        table["md5"], table["sha1"] = hashlib.md5, hashlib.sha1
    try:
        import _sha256, _sha512
        table.update(sha224=_sha256.sha224, sha256=_sha256.sha256, sha384=_sha512.sha384, sha512=_sha512.sha512)
    except ImportError:
        try:
            import _sha2
            table.update(sha224=_sha2.sha224, sha256=_sha2.sha256, sha384=_sha2.sha384, sha512=_sha2.sha512)
        except ImportError:
            table.update(sha224=hashlib.sha224, sha256=hashlib.sha256, sha384=hashlib.sha384, sha512=hashlib.sha512)
    return table


def _py_hmac(fn, block, key, msg):
    # RFC 2104 written out (the stdlib hmac module would route through OpenSSL)
    if len(key) > block:
        key = fn(key).digest()
    key = key + b"\0" * (block - len(key))
    inner = fn(bytes(k ^ 0x36 for k in key) + msg).digest()
    return fn(bytes(k ^ 0x5c for k in key) + inner).digest()


def post(res, units_, bins):
    table = _py_hashes()
    blocks = dict(md5=64, sha1=64, sha224=64, sha256=64, sha384=128, sha512=128)
    sdir = os.path.join(verif.BUILD, "scratch", "%s-%d" % (ID, os.getpid()))
    checked = 0
    for p in sorted(glob.glob(os.path.join(sdir, "u*", "pysample.txt"))):
        for line in open(p):
            f = line.split()
            if len(f) != 5:
                continue
            algo, mode, key, msg, out = f[0], int(f[1]), bytes.fromhex(f[2][1:]), bytes.fromhex(f[3][1:]), bytes.fromhex(f[4])
            want = _py_hmac(table[algo], blocks[algo], key, msg) if mode else table[algo](msg).digest()
            checked += 1
            if want != out:
                res.broken.append("reference conflict: Python %s%s(key=%s, msg=%s) = %s but cppcms == libcrypto EVP = %s" % (
                    "hmac-" if mode else "", algo, key.hex(), msg.hex()[:200], want.hex(), out.hex()))
                break
    res.extra["python_crosschecked_results"] = checked
    res.extra["python_hash_modules"] = sorted(set(getattr(v, "__module__", "?") or "?" for v in table.values()))
    if checked < 100:
        res.broken.append("python cross-check saw only %d sample results" % checked)


def run(tier, seed):
    nr, n = counts(tier)
    return verif.standard(ID, tier, seed, specs(), units, RULE, level=LEVEL,
                          floor={"grid": 150000, "random": nr * n * 5, "huge": 6},
                          assumptions=["libcrypto's EVP_Digest/HMAC()/EVP_aes_*_cbc implement FIPS 180-4, RFC 1321, RFC 2104 and SP 800-38A correctly "
                                       "(re-checked on a sample against Python's built-in hash modules and an RFC 2104 HMAC written out in Python)",
                                       "the reference session-cookie decoder/encoder and hex parser in harness/c16_crypto.cpp (40 lines) state the wire format "
                                       "other builds rely on: message|HMAC, and CBC(junk block|u32 length|message|padding)|HMAC over the cipher blocks; the sub-key "
                                       "derivation of a combined aes key (HMAC-SHA256/512(key,'0'), (key,'\\1')) is pinned as implemented today",
                                       "ASan redzones detect reads/writes past exact-size message, digest and cipher buffers"],
                          post=post,
                          extra={"exhaustive_subspace": "message lengths 0..4096 x 6 digests; HMAC key lengths 0..3*block+1 x 6; HMAC message lengths 0..1024 x 3 key "
                                                        "classes x 6; all cut pairs of a (2 blocks+2)-byte message; all compositions of 0..10 bytes into <=6 appends; "
                                                        "AES-CBC 1..64 blocks x 3 key sizes x 16 construction variants; cbc object re-use: 3 key sizes x 4 ways of creating x k=2..4 messages x "
                                                        "which message gets set_iv (once/twice) x encrypt-only/decrypt-only/both-directions object; all 2-character hex digit pairs"})


def replay(path):
    return verif.standard_replay(specs(), path)


# sensitivity mutations (tools/sens.py -w 2 C16): each must be caught by the quick tier
_T = "\t"
MUTATIONS = [
    # S(i) RFC 2104: only keys LONGER than the block are hashed
    dict(name="hmac-key-equal-block-hashed", edits=[("src/crypto.cpp", "if(key_.size() > block_size) {", "if(key_.size() >= block_size) {")]),
    # S(ii) readout without re-priming the two digests
    dict(name="hmac-readout-no-reinit", edits=[("src/crypto.cpp", "\t\tdigest.assign(md_->digest_size(),0);\n\t\tinit();\n", "\t\tdigest.assign(md_->digest_size(),0);\n")]),
    # S(iii) sha1 read-out byte order
    dict(name="sha1-readout-little-endian", edits=[("src/crypto.cpp",
         "*out ++ = (block >> 24u) & 0xFFu;\n\t\t\t\t\t*out ++ = (block >> 16u) & 0xFFu;\n\t\t\t\t\t*out ++ = (block >>  8u) & 0xFFu;\n\t\t\t\t\t*out ++ = (block >>  0u) & 0xFFu;",
         "*out ++ = (block >>  0u) & 0xFFu;\n\t\t\t\t\t*out ++ = (block >>  8u) & 0xFFu;\n\t\t\t\t\t*out ++ = (block >> 16u) & 0xFFu;\n\t\t\t\t\t*out ++ = (block >> 24u) & 0xFFu;")]),
    # S(iv) md5 padding boundary: wrong only for lengths = 56 mod 64
    dict(name="md5-padding-boundary-56", edits=[("src/md5.cpp", "md5_append(pms, pad, ((55 - (pms->count[0] >> 3)) & 63) + 1);", "md5_append(pms, pad, ((56 - (pms->count[0] >> 3)) & 63));")]),
    # sha1 padding: wrong only for lengths = 55 mod 64
    dict(name="sha1-padding-boundary-55", edits=[("private/sha1.h", "if (block_byte_index_ > 56) {", "if (block_byte_index_ >= 56) {")]),
    # sha1 object not reset by readout: wrong only on re-use (and for HMAC keys longer than the block)
    dict(name="sha1-readout-no-reset", edits=[("src/crypto.cpp", "\t\t\t\tstate_.get_digest(digets);\n\t\t\t\tstate_.reset();\n", "\t\t\t\tstate_.get_digest(digets);\n")]),
    # md5: partial-block carry between appends off by one: wrong only when an append that starts inside a block ends exactly on byte 63
    dict(name="md5-append-partial-block-off-by-one", edits=[("src/md5.cpp", "if (offset + copy < 64)", "if (offset + copy < 63)")]),
    # md5: carry from the low to the high word of the bit counter dropped: wrong only for messages >= 512 MiB
    dict(name="md5-bit-count-carry-dropped", edits=[("src/md5.cpp", "    if (pms->count[0] < nbits)\n\tpms->count[1]++;\n", "")]),
    # sha-2 wrapper: sha384 reported with a 64-byte block -> HMAC-SHA384 differs from the standard
    dict(name="sha384-block-size-64", edits=[("src/crypto.cpp", "if (len >= 384)", "if (len > 384)")]),
    # sha-2 wrapper: read-out does not restart the context
    dict(name="sha2-readout-no-reinit", edits=[("src/crypto.cpp", "&state_\t\t\t\t\t\\\n\t\t\t\t\t);\t\t\t\t\t\\\n\t\t\t\tSHA ## len ## _Init(&state_);\t\t\t\\\n", "&state_\t\t\t\t\t\\\n\t\t\t\t\t);\t\t\t\t\t\\\n")]),
    # aes: key schedule always 128 bit in both directions (round trip still works, other nodes/builds cannot read it)
    dict(name="aes-key-schedule-always-128", edits=[
        ("src/aes.cpp", "AES_set_encrypt_key(reinterpret_cast<unsigned char const *>(key_.data()), type_, &key_enc_);", "AES_set_encrypt_key(reinterpret_cast<unsigned char const *>(key_.data()), 128, &key_enc_);"),
        ("src/aes.cpp", "AES_set_decrypt_key(reinterpret_cast<unsigned char const *>(key_.data()), type_, &key_dec_);", "AES_set_decrypt_key(reinterpret_cast<unsigned char const *>(key_.data()), 128, &key_dec_);")]),
    # aes: set_iv forgets the decryption direction (the session cipher does not notice: it discards the first block)
    dict(name="aes-set-iv-forgets-decrypt-iv", edits=[("src/aes.cpp", "\t\t\tmemcpy(iv_dec_,ptr,size);\n", "")]),
    # aes: set_iv on an object that has already encrypted something does not reach the encryption chain (message #2 is chained onto message #1)
    dict(name="aes-set-iv-ignored-by-used-encrypting-object", edits=[("src/aes.cpp", "\t\t\tmemcpy(iv_enc_,ptr,size);\n", "\t\t\tif(!encryption_initialized_) memcpy(iv_enc_,ptr,size);\n")]),
    # aes: the mirror for a re-used decrypting object
    dict(name="aes-set-iv-ignored-by-used-decrypting-object", edits=[("src/aes.cpp", "\t\t\tmemcpy(iv_dec_,ptr,size);\n", "\t\t\tif(!decryption_initialized_) memcpy(iv_dec_,ptr,size);\n")]),
    # key: upper-case hex digits mis-decoded
    dict(name="key-from-hex-uppercase", edits=[("src/crypto.cpp", "return c-'A' + 10;", "return c-'A';")]),
    # key: validation lets 'g' through (off-by-one in the range test)
    dict(name="key-set-hex-accepts-g", edits=[("src/crypto.cpp", "|| ('a' <= c && c<='f')\n\t\t\t\t|| ('A' <= c && c<='F')", "|| ('a' <= c && c<='g')\n\t\t\t\t|| ('A' <= c && c<='F')")]),
    # aes_factory: which hash derives the sub-keys from a 32-byte combined key (cookies of other builds become unreadable)
    dict(name="aes-factory-derivation-hash-choice", edits=[("src/aes_encryptor.cpp", "k.size() * 8 <= 256 ? \"sha256\" : \"sha512\"", "k.size() * 8 < 256 ? \"sha256\" : \"sha512\"")]),
]
