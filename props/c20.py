"""C20 — URL routing is deterministic, whole-string, and consistent with URL generation."""
import os
import verif
from verif import Unit, rc_params

ID = "C20"
TECHNIQUE = ("rapidcheck-generated application trees, mount points and requests run against the real url_dispatcher / mount_point / "
             "applications_pool / url_mapper over a cppcms::service without network; differential oracle = independent backtracking "
             "matcher over the generated pattern AST (cross-checked by std::regex) with first-match-in-registration-order routing, "
             "a reference url_mapper written from its documentation, and a by-construction round trip map -> route; ASan/UBSan")
LEVEL = "exploration"
LEVEL_TEXT = ("Random configurations: 1..4 mount points (all nine ways of constructing a mount_point, host/script/path patterns, either "
              "selection, any group) in front of application trees of depth 1..4 with 1..6 handlers per node registered through every "
              "dispatcher API (assign with 0..6 groups, assign_generic, map_generic with refusing handlers, typed map with string/int "
              "parameters, plain and regex method filters, mount/add/attach), patterns assembled from 24 overlapping pieces. Requests are "
              "drawn from a handler's language through the mount chain, one edit away from it, or unrelated. Each request's observed "
              "(mount point, sub-url, handler, arguments | 404 status) is compared with the model. Mapper: trees with keys, arity "
              "overloads, default urls, keyword placeholders in handlers and mounts; keys absolute / relative / '.' / '..' / ';keywords', "
              "erroneous keys; generated URL compared with the reference and routed back from the root through the mount point.")
LEVEL_NOTE = ("Sampling, not proof. Patterns come from a fixed family (literals, \\d \\w [a-z] . [^/] classes, groups, alternation, ?, *, +, "
              "{m,n}); no back-references, look-around, lazy quantifiers or captures inside repeated groups. Request strings are ASCII "
              "0x20..0x7e plus '\\n' and contain no NUL (the library matches C strings: an embedded NUL would cut the string; real "
              "front-ends deliver C strings). The pool is asked through get_application_specific_pool and the application's main() is "
              "called directly - thread-pool dispatch, sessions and the HTTP front-ends are not part of this check. Trusts the 60-line "
              "matcher and the reference mapper in harness/c20_*.cpp (two-oracle disagreement is counted as inconclusive, never as a violation).")
DESIGN_REF = "3/C20"
RULE = ("An evaluation is one (configuration, request) or (configuration, mapper query) pair. route: non-trivial when at least two handlers of "
        "the deciding node accept the sub-url (method + pattern), or the request is one edit away from a string of a handler's language, "
        "or the request was decided at tree depth >= 2. mapper: non-trivial when the target handler sits at depth >= 2, or the key uses "
        "'..', or keyword parameters. Distinct = hash of (configuration, request/query).")

NROUTE, NMAP = 12, 4


def specs():
    return [dict(name="c20_routing", srcs="c20_routing.cpp", cfg="asan", rapidcheck=True)]


def _n(tier):
    # configurations per process
    return (8000, 10000) if tier == "quick" else (60000, 100000)


def units(bins, tier, seed):
    b = bins["c20_routing"]
    nr, nm = _n(tier)
    routes = [Unit("c20_routing.route%d" % i, [b, "--only", "route"], env={"RC_PARAMS": rc_params(seed * 1000 + i, nr, 100)},
                   group="route", timeout=14400) for i in range(NROUTE)]
    mappers = [Unit("c20_routing.mapper%d" % i, [b, "--only", "mapper"], env={"RC_PARAMS": rc_params(seed * 1000 + 500 + i, nm, 100)},
                    group="mapper", timeout=14400) for i in range(NMAP)]
    for u in routes + mappers:
        # the recursive matchers allocate closures at every depth: with ASan's default 30-frame allocation contexts the stack depot
        # grows without bound (1 GB after 6000 configurations); 4 frames keep a process below 0.5 GB and twice as fast
        u.env["ASAN_OPTIONS"] = verif.san_env()["ASAN_OPTIONS"] + ":malloc_context_size=4"
    routes[0].env["C20_REGRESSIONS"] = os.path.join(verif.VERIF, "replays", ID)     # hand-written cases reg-*.case
    us = [routes[0], mappers[0]] + routes[1:] + mappers[1:]     # evidence samples come from the first units
    return us


def _floor(tier):
    nr, nm = _n(tier)
    req = 20 if tier == "quick" else 40
    q = 10 if tier == "quick" else 16
    return {"route": NROUTE * nr * req * 9 // 10, "mapper": NMAP * nm * q * 9 // 10}


def run(tier, seed):
    return verif.standard(ID, tier, seed, specs(), units, RULE, level=LEVEL, floor=_floor,
                          assumptions=["the AST matcher (harness/c20_rx.cpp) implements Perl priority semantics for the generated pattern family; "
                                       "std::regex (ECMAScript) is consulted as a second opinion on every match",
                                       "the reference url_mapper (harness/c20_model.cpp) follows cppcms/url_mapper.h's documentation",
                                       "request strings contain no NUL byte"])


def replay(path):
    return verif.standard_replay(specs(), path)


_RX = "booster/lib/regex/src/pcre_regex.cpp"
_UD = "src/url_dispatcher.cpp"
_MP = "src/mount_point.cpp"
_UM = "src/url_mapper.cpp"
_AP = "src/applications_pool.cpp"

MUTATIONS = [
    # --- the S list of DESIGN.md
    dict(name="regex-match-accepts-prefix", edits=[
        (_RX, 'anchored+=")\\\\z";', 'anchored+=")";'),
        (_RX, "\t\tif(ovec[0]!=0 || ovec[1]!=end-begin)\n\t\t\treturn false;\n", "")]),
    dict(name="dispatch-iterates-in-reverse", edits=[
        (_UD, "for(i=0;i<d->options.size();i++) {\n\t\t\tif(d->options[i]->dispatch(url,cmethod,app))",
         "for(i=d->options.size();i-- > 0;) {\n\t\t\tif(d->options[i]->dispatch(url,cmethod,app))")]),
    dict(name="method-filter-compared-with-find", edits=[
        (_UD, "if(!method || method_ != method)", "if(!method || method_.find(method) == std::string::npos)")]),
    dict(name="mount_point-returns-group-0", edits=[(_MP, "res.second=m[group_];", "res.second=m[0];")]),
    # --- own
    dict(name="regex-dollar-instead-of-z", edits=[(_RX, 'anchored+=")\\\\z";', 'anchored+=")$";')]),
    dict(name="regex-anchor-group-dropped", edits=[
        (_RX, 'anchored+= "(?:";', 'anchored+= "";'), (_RX, 'anchored+=")\\\\z";', 'anchored+="\\\\z";')]),
    dict(name="regex-match-nomarks-unanchored", edits=[
        (_RX, "int res = pcre_exec(d->are,0,begin,end-begin,0,PCRE_ANCHORED,0,0);", "int res = pcre_exec(d->are,0,begin,end-begin,0,0,0,0);")]),
    dict(name="handler2-arguments-swapped", edits=[
        (_UD, "h(match_[select_[0]],match_[select_[1]]);", "h(match_[select_[1]],match_[select_[0]]);")]),
    dict(name="pool-last-mount-wins", edits=[
        (_AP, "for(std::list<_data::attachment>::iterator it = d->apps.begin();it!=d->apps.end();++it) {\n\t\tstd::pair<bool,std::string> m = it->mp.match(host,script_name,path_info);",
         "for(std::list<_data::attachment>::reverse_iterator it = d->apps.rbegin();it!=d->apps.rend();++it) {\n\t\tstd::pair<bool,std::string> m = it->mp.match(host,script_name,path_info);")]),
    dict(name="mounted-app-falls-through", edits=[
        (_UD, "app_->main(match_[select_]);\n\t\t\t\t\treturn true;", "app_->main(match_[select_]);\n\t\t\t\t\treturn false;")]),
    dict(name="mount_point-host-ignored", edits=[
        (_MP, "\tif(!host_.empty() && !booster::regex_match(h,host_))\n\t\treturn res;\n", "")]),
    dict(name="mapper-keyword-default-beats-override", edits=[
        (_UM, "p = data_helpers_override.find(string_key::unowned(hkey));\n\t\t\t\t\t\tif(p != data_helpers_override.end()) {",
         "p = data_helpers_default.find(hkey);\n\t\t\t\t\t\tif(p != data_helpers_default.end()) {"),
        (_UM, "p = data_helpers_default.find(hkey);\n\t\t\t\t\t\t\tif(p!=data_helpers_default.end())",
         "p = data_helpers_override.find(hkey);\n\t\t\t\t\t\t\tif(p!=data_helpers_override.end())")]),
    dict(name="mapper-dotdot-jumps-to-top", edits=[
        (_UM, "else if(subapp == \"..\") {\n\t\t\t\tmapper = &mapper->parent();", "else if(subapp == \"..\") {\n\t\t\t\tmapper = &mapper->topmost();")]),
    dict(name="mapper-child-name-not-default-url", edits=[
        (_UM, "url_mapper *tmp = mapper->d->is_app(real_key);", "url_mapper *tmp = 0;")]),
]
