"""C04 — XSS filter output contains only white-listed markup and is stable."""
import os
import verif
from verif import Unit, rc_params, fuzz_unit

ID = "C04"
ENGINE = "libFuzzer+rapidcheck"
TECHNIQUE = ("coverage-guided fuzzing (libFuzzer, input = 21 configuration bytes selecting rule set/encoding/method + text) and a rapidcheck HTML "
             "grammar over the rule set's vocabulary and its near misses; oracle = independent strict re-scanner of the filter output, independent "
             "encoding well-formedness checker, fixed-point / agreement relations between validate, filter and validate_and_filter_if_invalid, ASan/UBSan")
LEVEL = "exploration"
LEVEL_TEXT = ("For every generated (rule set, text) the filter output is re-validated by cppcms itself, must be a fixed point in both modes, and is "
              "walked by a scanner written from the documentation: every '<' must open a white-listed tag or (if allowed) a clean comment, every "
              "attribute must be white-listed with a value of its declared kind (own integer/regex/RFC 3986 character and browser-style scheme "
              "checks), no '>' outside tags, every '&' a white-listed or numeric entity, tags properly nested; whatever validates must be well formed "
              "in the declared encoding according to reference decoders (UTF-8, UTF-16, code-page tables from Python's codecs).")
LEVEL_NOTE = ("Sampling, not proof: rule sets are drawn from a fixed vocabulary (8 tags, 8 attributes, 4 regular expressions, 6 schemes, 11 encodings); "
              "custom validator functors and arbitrary regular expressions are not explored. SHIFT_JIS is decoded with the same iconv the library uses. "
              "The scanner's grammar is the author's reading of cppcms/xss.h; it is as strict as the documented rules, stricter than a browser.")
DESIGN_REF = "3/C04"
RULE = ("case = 21 configuration bytes ({xhtml,html} x 8 tags x kinds {none,pair,stand-alone,any} x 8 attributes x 12 kinds {boolean,integer,4 regex,"
        "uri,uri+schemes,relative,absolute+schemes,absolute} x tag masks x comments x numeric entities x extra entities x 11 encodings x "
        "{remove,escape} x 6 replacement chars) + text (fuzzer bytes with HTML dictionary / grammar documents with byte mutations, <= 4 KiB). "
        "Non-trivial: the input does NOT validate and the output still contains at least one tag, entity or comment (the filter had to keep "
        "something while removing something), OR the input contains a numeric character reference whose value is >= 2^32 (it must be "
        "rejected whatever it wraps to). Distinct = hash of (configuration, input bytes). A deterministic grid of 19 200 numeric references "
        "({dec,hex,HEX} x leading zeros {0,1,8,30} x {cp,2^32+cp,2^33+cp,2^64+cp,2^31-1,2^31,2^32-1,2^32,0x110000,0x10FFFF} x 11 code points x "
        "{text,attribute} x {xhtml,html} x {remove,escape} x numeric {on,off} x {clean,dirty document}) runs in unit g0 of every tier.")

HERE = os.path.dirname(os.path.dirname(os.path.abspath(__file__)))
CORPUS = os.path.join(HERE, "corpus", "C04", "seeds")
DICT = os.path.join(HERE, "corpus", "C04", "html.dict")
FUZZ = ["c04_fuzz"]

# (fuzz processes, runs per process, rc processes, rc cases per process)
BUDGET = {"quick": (8, 50000, 8, 12000), "thorough": (8, 600000, 8, 200000)}


def specs():
    return [dict(name="c04_fuzz", srcs="c04_fuzz.cpp", cfg="asan", fuzzer=True),
            dict(name="c04_rc", srcs="c04_rc.cpp", cfg="asan", rapidcheck=True)]


def units(bins, tier, seed):
    nf, runs, nr, cases = BUDGET[tier]
    us = []
    for i in range(nf):
        us.append(fuzz_unit("c04_fuzz.f%d" % i, bins["c04_fuzz"], ID, seed * 1000 + i, runs, max_len=700 if tier == "quick" else 2048,
                            seeds=[CORPUS], dict_file=DICT, group="fuzz", timeout=5400, len_control=20,
                            env={"C04_EXCLUDE_KNOWN": 0},   # both findings are fixed in /repo: the classes are searched again
                            # libFuzzer's per-input watchdog is wall clock; on a heavily shared machine a descheduled process trips the default
                            # 120 s although no input takes more than a millisecond.  Time is never an oracle here: Unit.timeout is the safety net.
                            extra=["-timeout=1500"]))
    for i in range(nr):
        env = {"RC_PARAMS": rc_params(seed * 1000 + 100 + i, cases, 200), "C04_EXCLUDE_KNOWN": 0}
        if i == 0:
            env["C04_FIXED"] = 1
            env["VERIF_REGRESS"] = 1     # replays/C04/reg-*.case (the two repaired findings) must pass
        us.append(Unit("c04_rc.g%d" % i, [bins["c04_rc"]], env=env, group="grammar", timeout=5400))
    return us


def run(tier, seed):
    nf, runs, nr, cases = BUDGET[tier]
    return verif.standard(ID, tier, seed, specs(), units, RULE, level=LEVEL,
                          floor={"fuzz": nf * runs // 2, "grammar": nr * cases},
                          assumptions=["the scanner and reference decoders in harness/c04_oracle.h are correct and no laxer than the documented rules",
                                       "rule sets outside the fixed vocabulary behave like those inside it"],
                          fuzz_names=FUZZ)


def replay(path):
    return verif.standard_replay(specs(), path, fuzz_names=FUZZ)


X = "src/xss.cpp"
# sensitivity mutations (tools/sens.py -w 5 C04): the four from DESIGN.md section 3/C04 (S i-iv) and own ones; each must be caught by the quick tier
MUTATIONS = [
    dict(name="absolute-uri-accepts-relative-regression", edits=[("src/xss.cpp", "\t\t\t\tif(!parser.has_scheme())\n\t\t\t\t\treturn false;\n", "")]),
    dict(name="low-surrogate-reference-regression", edits=[("src/xss.cpp", "|| (0xD800 <= code_point  && code_point<= 0xDFFF)", "|| (0xD800 <= code_point  && code_point<= 0xDBFF)")]),
    # S(i) xhtml nesting: the opening tag of a mismatched pair stays valid
    dict(name="nesting-keeps-open-tag-of-mismatched-pair", edits=[(X, "\t\t\t\t\t\t\tcur.type = invalid_data;\n\t\t\t\t\t\t\tparsed[top_index].type = invalid_data;\n",
                                                                "\t\t\t\t\t\t\tcur.type = invalid_data;\n")]),
    # S(ii) attribute values: any "&...;" is accepted
    dict(name="attr-value-accepts-any-entity", edits=[(X, "\t\t\t\t\telse {\n\t\t\t\t\t\treturn false;\n\t\t\t\t\t}\n\t\t\t\tdefault:\n\t\t\t\t\tbegin++;",
                                                    "\t\t\t\t\telse {\n\t\t\t\t\t\twhile(begin!=end && *begin!=';') begin++;\n\t\t\t\t\t\tif(begin==end) return false;\n\t\t\t\t\t\tbegin++;\n\t\t\t\t\t\tbreak;\n\t\t\t\t\t}\n\t\t\t\tdefault:\n\t\t\t\t\tbegin++;")]),
    # S(iii) uri validator: the scheme white list is not consulted for uri ("both") properties
    dict(name="uri-scheme-whitelist-skipped", edits=[(X, "\t\t\t\t\treturn booster::regex_match(parser.scheme_begin(),parser.scheme_end(),scheme_);\n\t\t\t\t}\n\t\t\t\treturn true;",
                                                   "\t\t\t\t\treturn true;\n\t\t\t\t}\n\t\t\t\treturn true;")]),
    # S(iii') the scheme white list is matched case-insensitively
    dict(name="uri-scheme-whitelist-icase", edits=[(X, "\t\t\t\tbooster::regex(scheme));", "\t\t\t\tbooster::regex(scheme,booster::regex::icase));")]),
    # S(iv) escape mode forgets the double quote
    dict(name="escape-forgets-quot", edits=[(X, "\t\t\t\t\tcase '\"':\n\t\t\t\t\t\tfiltered+=\"&quot;\";\n\t\t\t\t\t\tbreak;\n", "")]),
    # own: comments may contain '<'
    dict(name="comment-body-allows-lt", edits=[(X, "if(c=='>' || c=='<' || c=='&') {", "if(c=='>' || c=='&') {")]),
    # own: duplicate attribute detection in html mode becomes case sensitive
    dict(name="html-duplicate-attr-case-sensitive", edits=[(X, "std::set<c_string,icompare_c_string> html_properties_found;", "std::set<c_string,compare_c_string> html_properties_found;")]),
    # own: a tag rejected by the rules no longer takes its partner with it
    dict(name="filter-keeps-partner-of-rejected-tag", edits=[(X, "\t\t\t\tif(pair!=-1)\n\t\t\t\t\tparsed[pair].type = invalid_data;\n", "")]),
    # own: validate() forgets the encoding check for ASCII compatible encodings
    dict(name="validate-skips-encoding-check", edits=[(X, "\t\t\t\tif(!encoding::valid(enc,begin,end,dummy_count))\n\t\t\t\t\treturn false;\n", "")]),
    # own: relative_uri accepts absolute URIs
    dict(name="relative-uri-accepts-scheme", edits=[(X, "\t\t\t\tif(parser.has_scheme())\n\t\t\t\t\treturn false;\n", "")]),
    # own: <b/> accepted for tags that must come in pairs
    dict(name="pair-tag-accepts-self-closed", edits=[(X, "if(part.type!=open_tag && part.type!=close_tag)", "if(part.type!=open_tag && part.type!=close_tag && part.type!=open_and_close_tag)")]),
    # own: off by one in the numeric entity range
    dict(name="numeric-entity-range-off-by-one", edits=[(X, "|| code_point>0x10FFFF", "|| code_point>0x110000")]),
    # own: over-long UTF-8 forms (e.g. E0 80 BC = '<') pass the encoding validation and filtering
    dict(name="utf8-overlong-accepted", edits=[("private/utf_iterator.h", "\t\tif(width(c)!=trail_size + 1)\n\t\t\treturn illegal;\n", "")]),
    # own: off by one in the ISO-8859-8 table (0xBF is unassigned)
    dict(name="iso-8859-8-table-off-by-one", edits=[("private/encoding_validators.h", "if(0xBF <=c && c<=0xDE)", "if(0xC0 <=c && c<=0xDE)")]),
    # own (class of seeded change C04-4): the upper bound of a numeric reference is tested on the value truncated to 32 bits,
    # so k*2^32+cp passes as cp
    dict(name="numeric-entity-value-truncated-to-32-bits", edits=[(X, "|| code_point>0x10FFFF", "|| (unsigned)code_point>0x10FFFF")]),
    # own: a stray '>' is treated as text
    dict(name="stray-gt-is-text", edits=[(X, "\t\t\t\t\t\ttags.push_back(entry(p,p+1,invalid_data));", "\t\t\t\t\t\ttags.push_back(entry(p,p+1,plain_text));")]),
]
