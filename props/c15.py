"""C15 — HTML escaping neutralises markup; URL and base64url codecs are exact inverses."""
import verif
from verif import Unit, rc_params

ENGINE = "enumeration+rapidcheck"
ID = "C15"
TECHNIQUE = "exhaustive enumeration of all short byte strings + rapidcheck random strings; inverse/alphabet oracles with independent reference codecs under ASan/UBSan"
LEVEL = "exploration"
LEVEL_TEXT = ("Every byte string of length 0..2 (0..3 for base64url) and every length 0..1024 is enumerated, longer strings are "
              "sampled; each output path (string, ostream, streambuf, template filter, widget rendering) is compared with an "
              "independent reference un-escape / percent decoder / base64url encoder, exact-size caller buffers are guarded by ASan.")
LEVEL_NOTE = "Trusts the harness's own reference codecs (40 lines) and ASan redzones; long strings are sampled, not enumerated."
DESIGN_REF = "3/C15"
RULE = ("enumeration: all byte strings of length 0..2 for escape/urlencode/urldecode/decoders and 0..3 (quick: 0..2 plus a 1/16 "
        "slice of length 3 per shard... see classes) for base64url, plus lengths 0..1024; random: rapidcheck strings up to 8 KiB "
        "(64 KiB thorough) biased to markup/reserved bytes, with a stream buffer failing after k bytes. Non-trivial: the string "
        "contains a byte that must be transformed (escape: one of <>&\"' ; url: a non-unreserved byte; base64: non-empty; "
        "decoders: every input). Distinct = hash of (codec, string).")


def specs():
    return [dict(name="c15_codecs", srcs="c15_codecs.cpp", cfg="asan", rapidcheck=True)]


def units(bins, tier, seed):
    b = bins["c15_codecs"]
    us = []
    shards = 16
    for i in range(shards):
        us.append(Unit("c15_codecs.enum%d" % i, [b], env={"C15_MODE": "enum", "C15_STRIDE": shards, "C15_OFFSET": i,
                                                            "C15_B64_LEN": 3 if tier == "thorough" or True else 2}, group="enum"))
    n = 3000 if tier == "quick" else 20000    # (60000 took over an hour of wall time per unit under ASan on a loaded machine)
    nr = 4 if tier == "quick" else 12
    for i in range(nr):
        us.append(Unit("c15_codecs.rc%d" % i, [b], env={"C15_MODE": "rc", "RC_PARAMS": rc_params(seed * 1000 + i, n, 200)}, group="random"))
    return us


def run(tier, seed):
    return verif.standard(ID, tier, seed, specs(), units, RULE, level=LEVEL,
                          floor={"enum": 16000000, "random": 4 * 3000},
                          assumptions=["reference codecs in harness/c15_codecs.cpp are correct", "ASan redzones detect writes past exact-size buffers"],
                          extra={"exhaustive_subspace": "all byte strings of length 0..2 (all codecs) and 0..3 (base64url); all lengths 0..1024"})


def replay(path):
    return verif.standard_replay(specs(), path)


# sensitivity mutations (tools/sens.py C15): (file, old, new) edits on a scratch copy; each must be caught by the quick tier
MUTATIONS = [
    dict(name="escape-string-drops-apostrophe", edits=[("src/util.cpp", "\t\t\tcase '\\'': content+=\"&#39;\"; break;\n", "")]),
    dict(name="urlencode-star-unreserved", edits=[("src/util.cpp", "\t\t\t\tcase '~':\n", "\t\t\t\tcase '~':\n\t\t\t\tcase '*':\n")]),
    dict(name="b64-encoded_size-case2", edits=[("src/base64.cpp", "case 2: return s/3*4+3;", "case 2: return s/3*4+2;")]),
    dict(name="b64-bdecode-shift", edits=[("src/base64.cpp", "out[ 1 ] = (unsigned char ) (in[1] << 4 | in[2] >> 2);", "out[ 1 ] = (unsigned char ) (in[1] << 4 | in[2] >> 3);")]),
    dict(name="escape-streambuf-amp-short", edits=[("src/util.cpp", "ok = output.sputn(\"&amp;\",5)==5;", "ok = output.sputn(\"&amp;\",5)>=0;")]),
    dict(name="urldecode-needs-4", edits=[("src/util.cpp", "if(end-begin >= 3 && http::protocol::xdigit(begin[1])", "if(end-begin >= 4 && http::protocol::xdigit(begin[1])")]),
    dict(name="b64-decode-empty-regression", edits=[("src/base64.cpp", "\t\toutput.clear();\n", "")]),
]
