"""C03 — the client receives exactly the bytes the application wrote, once and in order."""
import verif
from verif import Unit, rc_params

ID = "C03"
ENGINE = "rapidcheck"
TECHNIQUE = ("rapidcheck-generated write programs executed by a writer application inside an in-process cppcms::service, generated write "
             "schedules (short writes / EAGAIN via --wrap=writev); oracle: independent de-framers (HTTP length/chunked/close, CGI, FastCGI "
             "records), zlib inflate, byte-exact comparison with the deterministic body, header/cookie multiplicity, cache copy comparison")
LEVEL = "exploration"
LEVEL_TEXT = ("Write programs (write sizes 0..200 KiB biased to buffer and 64 KiB record edges, put, flush, setbuf, full_asynchronous_buffering, "
              "async_flush_output with continuation, headers, cookies, content_length; io modes normal/nogzip/raw/asynchronous/asynchronous_raw; "
              "gzip offered or not; page cache on/off) x front-ends {HTTP/1.0, HTTP/1.1 keep-alive with Content-Length, HTTP/1.1 chunked, SCGI, "
              "FastCGI} x write schedules. The reply is de-framed by the harness and must equal f(case,offset) byte for byte, with exactly "
              "one header block carrying each header/cookie once; the next request on a kept-alive connection must be answered correctly; "
              "the cached page must equal the bytes sent and a cache hit must deliver them again.")
LEVEL_NOTE = ("Sampling; trusts the harness de-framers and zlib. The write schedule is owned via link-time wrapping of writev (the only write "
              "path of booster::aio::stream_socket). SO_SNDTIMEO behaviour is not modelled.")
DESIGN_REF = "3/C03"
RULE = ("case = (front-end, io mode, gzip offer, cache, headers, cookies, op list, write caps, read caps). Non-trivial: a short write or EAGAIN "
        "actually happened on the connection, or a FastCGI body crossed 65535 bytes, or setbuf() asked for less than what was already "
        "written. Distinct = hash of the whole case.")


def specs():
    return [dict(name="c03_response", srcs="c03_response.cpp", cfg="asan", rapidcheck=True, wraps=["readv", "writev"])]


def units(bins, tier, seed):
    b = bins["c03_response"]
    nproc, n = (14, 1500) if tier == "quick" else (14, 6000)
    return [Unit("c03_response.rc%d" % i, [b], env={"RC_PARAMS": rc_params(seed * 1000 + i, n, 100), "VERIF_REGRESS": 1 if i == 0 else 0}, group="random", timeout=7200) for i in range(nproc)]


def run(tier, seed):
    return verif.standard(ID, tier, seed, specs(), units, RULE, level=LEVEL, floor={"random": 12000},
                          assumptions=["harness de-framers (harness/common/vclient.h) and zlib inflate are correct",
                                       "all library socket writes go through ::writev (booster stream_socket.cpp)"])


def replay(path):
    return verif.standard_replay(specs(), path)


MUTATIONS = [
    dict(name="pending-output-off-by-one", edits=[("src/cgi_api.cpp", "\t\tappend_pending(output + n);", "\t\tappend_pending(output + (n > 300 ? n + 1 : n));")]),
    dict(name="fcgi-full-record-padding", edits=[("src/fastcgi_api.cpp", "full_header_.padding_length = pad_len = 1;", "full_header_.padding_length = 1; pad_len = 0;")]),
    dict(name="gzip-close-sync-flush", edits=[("src/http_response.cpp", "do_write(pbase(),pptr()-pbase(),Z_FINISH);", "do_write(pbase(),pptr()-pbase(),Z_SYNC_FLUSH);")]),
    dict(name="copy-buf-growth", edits=[("src/http_response.cpp", "setp(&buffer_[size],&buffer_[size]+size);", "setp(&buffer_[size],&buffer_[size]+size-1);")]),
    dict(name="chunked-last-chunk-trailer", edits=[("src/http_api.cpp", "trailer = \"\\r\\n0\\r\\n\\r\\n\";\n\t\t\t\ttrailer_len = 7;", "trailer = \"\\r\\n0\\r\\n\\r\\n\";\n\t\t\t\ttrailer_len = in.bytes_count() > 5000 ? 5 : 7;")]),
    dict(name="async-setbuf-shrink-regression", edits=[("src/http_response.cpp", "\t\t\t\tif(content_size > size) {\n", "\t\t\t\tif(false) {\n")]),
    dict(name="basic-device-setbuf-no-flush", edits=[("src/http_response.cpp", "\t\t\tif(content_size > size) {\n\t\t\t\tbooster::system::error_code e;\n\t\t\t\tif(flush(e)!=0)\n\t\t\t\t\treturn 0;\n\t\t\t\tcontent_size = 0;\n\t\t\t}", "\t\t\tif(content_size > size) {\n\t\t\t\tcontent_size = size;\n\t\t\t}")]),
    dict(name="async-write-handler-skips-byte", edits=[("src/cgi_api.cpp", "\t\tsize_t n = conn->socket().write_some(output,e);\n\t\toutput += n;", "\t\tsize_t n = conn->socket().write_some(output,e);\n\t\toutput += (n > 1000 ? n + 1 : n);")]),
    dict(name="raw-headers-dropped-remainder", edits=[("src/http_response.cpp", "\t\t\t\t\tif(len > 0)\n\t\t\t\t\t\treal_out += booster::aio::buffer(ptr,len);", "\t\t\t\t\tif(len > 1)\n\t\t\t\t\t\treal_out += booster::aio::buffer(ptr,len);")]),
]
