"""C10 — networked cache with local L1 never serves data another node replaced."""
import json, os
import verif
from verif import Unit, rc_params

ID = "C10"
TECHNIQUE = ("model-based testing: rapidcheck-generated sequential histories (store/fetch/rise/clear/stats/tick issued by 2..3 cache_over_ip "
             "clients, each with or without a local L1 cache, against 1..2 real in-process tcp_cache_service instances on loopback) run in "
             "lock-step with a single-copy reference model under a virtual clock; direct inspection of the server-side stores for placement "
             "and generation stamps; generated short-read/short-write/EAGAIN schedules on the protocol sockets; a second generator speaks the wire "
             "protocol directly (complete frames with lying length fields / unknown opcodes) against a model of the header semantics; ASan/UBSan")
LEVEL = "exploration"
LEVEL_TEXT = ("Every fetch of every client (and a closing sweep of all clients x all keys) must return exactly the value, trigger set and "
              "deadline of the last completed store of any client, or miss when that entry was risen, cleared, replaced by an expired one or "
              "has expired; the generation a client hands out must be the one the holding server has now; every live key is on exactly one "
              "listed server, the same for all clients; stats equal the model's counts; batches of >= 56 random keys of one length must be "
              "found by a second client and must not all land on one of two servers. Raw frames: a store is accepted iff its three length "
              "fields add up to the frame size and the key is non-empty, and then stores exactly the announced slices; every other frame "
              "is answered `error` (or served as documented) and the server-side store equals the model after every frame.")
LEVEL_NOTE = ("Sampling of sequential histories only: clients never operate concurrently (DESIGN.md C10/L), servers are not restarted and "
              "connections are not broken (the reconnect path of messenger::transmit is not reached). Keys and trigger names are NUL-free "
              "and keys non-empty (the wire format is NUL-terminated strings). A cache server that restarts "
              "re-issues generation stamps from 0; that scenario (outside the statement's quantifier) is not generated.")
DESIGN_REF = "3/C10"
RULE = ("case = (1..2 servers, list order, 2..3 clients each with L1 none/unlimited/limited to 1..3 entries, I/O cut density + seed, "
        "alphabet of 1..5 keys and 1..4 extra trigger names: ASCII / binary 1..600 bytes, history of 1..40 (thorough: 70) operations; values "
        "0 B..140 KB with and without NUL bytes, trigger lists up to ~260 names, relative deadlines -1..1000 s and absolute ones up to "
        "2^63-1); frames: 1..13 frames store/fetch/rise/clear/stats/unknown/session opcodes, 45 % of the stores with lying length fields. "
        "Non-trivial: the history contains a fetch by a client whose L1 holds a live copy of the key that ANOTHER client has since "
        "replaced (store), invalidated (rise) or cleared; frames: the sequence contains a store whose length fields do not add up. Distinct = "
        "hash of the serialised case. The spread group counts every batch.")

HERE = os.path.dirname(os.path.dirname(os.path.abspath(__file__)))
KNOWN = {  # signature of a finding -> (class name for C10_EXCLUDE_KNOWN, regression case, searched unless listed as open)
    "server:store-with-empty-trigger-name-refused": ("emptytrig", "c10_netcache.known-empty-trigger-name.case", True),       # fixed: ee86997
    "l1:refresh-merges-stale-triggers": ("trigmerge", "c10_netcache.known-l1-refresh-merges-triggers.case", True),           # fixed: da2af65
    # reported, outside the statement's quantifier (needs a hostile peer): excluded by construction until known_findings.json lists it as fixed
    "server:store-frame-length-wraparound": ("framewrap", "c10_netcache.known-store-frame-length-wraparound.case", False),
}


def known_state():
    """Returns (classes excluded by construction, regression cases to run).  The two classes fixed in /repo are searched like any other
    input unless known_findings.json lists their signature with status "known"; their regression cases always run (must pass on a fixed
    tree).  A class that is still open is excluded until known_findings.json lists its signature as fixed; its regression case runs as
    soon as the signature is listed (known: KNOWN-FINDING, exit 0; fixed: must pass).  C10_EXCLUDE_KNOWN / C10_INCLUDE_KNOWN override."""
    force_ex = set(x for x in os.environ.get("C10_EXCLUDE_KNOWN", "").split(",") if x)
    force_in = set(x for x in os.environ.get("C10_INCLUDE_KNOWN", "").split(",") if x)
    try:
        listed = [k for k in json.load(open(os.path.join(HERE, "known_findings.json"))).get("findings", []) if k.get("property") == ID]
    except Exception:
        listed = []
    exclude, regress = set(), []
    for sig, (cls, case, searched) in KNOWN.items():
        status = None
        for k in listed:
            if verif.sig_match(k.get("signature", ""), sig):
                status = k.get("status")
        inc = (status != "known") if searched else (status == "fixed")
        if cls in force_in or "all" in force_in:
            inc = True
        if cls in force_ex:
            inc = False
        if not inc:
            exclude.add(cls)
        if searched or status is not None or inc:
            regress.append(case)
    return ",".join(sorted(exclude)), sorted(regress)


def specs():
    return [dict(name="c10_netcache", srcs="c10_netcache.cpp", cfg="asan", rapidcheck=True, wraps=["time", "readv", "writev", "connect"])]


def budget(tier):
    # (history processes, histories per process, spread processes, batches per process, frame processes, frame sequences per process)
    return (11, 1200, 2, 300, 2, 8000) if tier == "quick" else (12, 12000, 2, 4000, 2, 150000)


def units(bins, tier, seed):
    b = bins["c10_netcache"]
    nh, ch, ns, cs, nf, cf = budget(tier)
    exc, regress = known_state()
    us = []
    # hard_rss_limit_mb: a mutated server that loses the framing of the byte stream resizes its input buffer to whatever 32 bits it reads
    asan = verif.san_env()["ASAN_OPTIONS"] + ":hard_rss_limit_mb=2000"
    for i in range(nh):
        us.append(Unit("c10_netcache.hist%d" % i, [b, "--only", "history"],
                       env={"ASAN_OPTIONS": asan, "C10_EXCLUDE_KNOWN": exc, "RC_PARAMS": rc_params(seed * 1000 + i, ch, 200)}, group="history", timeout=5400))
    for i in range(ns):
        us.append(Unit("c10_netcache.spread%d" % i, [b, "--only", "spread"],
                       env={"ASAN_OPTIONS": asan, "C10_EXCLUDE_KNOWN": exc, "RC_PARAMS": rc_params(seed * 1000 + 500 + i, cs, 200)}, group="spread", timeout=5400))
    for i in range(nf):
        us.append(Unit("c10_netcache.frames%d" % i, [b, "--only", "frames"],
                       env={"ASAN_OPTIONS": asan, "C10_EXCLUDE_KNOWN": exc, "RC_PARAMS": rc_params(seed * 1000 + 700 + i, cf, 200)}, group="frames", timeout=5400))
    for case in regress:
        us.append(Unit("c10_netcache.regress-" + case.split(".")[1], [b, "--regress", os.path.join(HERE, "replays", ID, case)],
                       env={"ASAN_OPTIONS": asan, "C10_EXCLUDE_KNOWN": exc}, group="regress"))
    return us


def floor(tier):
    nh, ch, ns, cs, nf, cf = budget(tier)
    return {"history": nh * ch, "spread": ns * cs, "frames": nf * cf}


def run(tier, seed):
    return verif.standard(ID, tier, seed, specs(), units, RULE, level=LEVEL, floor=floor,
                          assumptions=["the single-copy reference model in harness/c10_netcache.cpp is correct (entry live while deadline >= now; "
                                       "store adds the key to its own trigger set; rise removes every entry carrying the trigger)",
                                       "time() is the only clock the caches consult (interposed at link time)",
                                       "all socket I/O of the cache client and server goes through ::readv/::writev (booster stream_socket)",
                                       "a hash that looks at key content puts >= 56 random equal-length keys on both of two servers (p(false alarm) < 2^-55 per batch)"])


def replay(path):
    return verif.standard_replay(specs(), path)


CO = "src/cache_over_ip.cpp"
SV = "src/tcp_cache_server.cpp"
CL = "src/tcp_cache_client.cpp"
# sensitivity mutations (tools/sens.py -w 12 C10): the four from DESIGN.md 3/C10 (S i-iv) and own ones; each must be caught by the quick tier
MUTATIONS = [
    # S(i) of DESIGN.md ("cache_over_ip::store: do not remove from L1") is NOT in this list: it does not break the property.  Every L1 hit is
    # revalidated against the server's generation stamp, a store always gets a fresh stamp from the same server, so the stale own copy is
    # replaced on the next fetch exactly like a copy another node made stale.  (Before the fix da2af65 the mutant was visible through the
    # merged trigger set; it would matter again only if a restarted server re-issued old stamps, which the statement does not quantify over.)
    # S(ii) server answers `uptodate` to every revalidation without comparing generations
    dict(name="server-uptodate-without-generation-compare", edits=[(SV, "\t\t\t&& generation==hin_.operations.fetch.current_gen)", "\t\t\t)")]),
    # S(iii) an L1 hit survives the server's not_found
    dict(name="l1-hit-ignores-not-found", edits=[(CO, "\t\t\t\tif(res==tcp_cache::not_found) {\n\t\t\t\t\tl1_->remove(key);\n\t\t\t\t\treturn false;\n\t\t\t\t}\n", "\t\t\t\tif(res==tcp_cache::not_found) {\n\t\t\t\t\treturn true;\n\t\t\t\t}\n")]),
    # S(iv) keys are distributed by their length only
    dict(name="connector-hash-uses-key-size", edits=[("src/tcp_connector.cpp", "\treturn h % conns;", "\treturn key.size() % conns;")]),
    # own: rise reaches the first server only
    dict(name="rise-broadcast-first-server-only", edits=[("src/tcp_connector.cpp", "\tfor(i=0;i<conns;i++) {\n\t\ttcp_operation_header ht=h;", "\tfor(i=0;i<1;i++) {\n\t\ttcp_operation_header ht=h;")]),
    # own: the server-side store stamps every value with the same generation
    dict(name="generation-never-advances", edits=[("src/cache_storage.cpp", "cont.generation=generation++;", "cont.generation=generation;")]),
    # own: dropped check - the server answers `uptodate` whenever the stamps agree, also to clients that did not ask for revalidation
    dict(name="server-uptodate-without-request-flag", edits=[(SV, "\t\tif(hin_.operations.fetch.transfer_if_not_uptodate \n\t\t\t&& generation", "\t\tif(generation")]),
    # own: the L1 copy made on an L1 miss does not record the server's generation (the L1 numbers its entries itself)
    dict(name="l1-fill-drops-server-generation", edits=[(CO, "\t\t\t\tif(tcp()->fetch(key,*a,tags,*timeout_out,*gen,false)==tcp_cache::found) {\n\t\t\t\t\tl1_->store(key,*a,*tags,*timeout_out,gen);", "\t\t\t\tif(tcp()->fetch(key,*a,tags,*timeout_out,*gen,false)==tcp_cache::found) {\n\t\t\t\t\tl1_->store(key,*a,*tags,*timeout_out,0);")]),
    # own: off by one in the client's trigger list parser
    dict(name="client-trigger-parse-off-by-one", edits=[(CL, "\t\tlen-=tmp_len+1;", "\t\tlen-=tmp_len;")]),
    # own: the client reads the reply payload with one read_some (fine on loopback with small values, wrong under segmentation)
    dict(name="client-payload-read-some", edits=[("src/tcp_messenger.cpp", "\t\t\t\tsocket_.read(booster::aio::buffer(d));", "\t\t\t\tsocket_.read_some(booster::aio::buffer(d));")]),
    # own: the server reads the request payload with one async_read_some
    dict(name="server-payload-read-some", edits=[(SV, "\t\t\tsocket_.async_read(io::buffer(data_in_),", "\t\t\tsocket_.async_read_some(io::buffer(data_in_),")]),
    # own: the deadline travels as 32 bits
    dict(name="store-deadline-truncated-to-32-bits", edits=[(CL, "\th.operations.store.timeout=timeout;", "\th.operations.store.timeout=(int)timeout;")]),
    # own: clear is applied to the L1 and the first server only
    dict(name="clear-not-broadcast", edits=[(CL, "\tstd::string empty;\n\tbroadcast(h,empty);", "\tstd::string empty;\n\ttcp[0].transmit(h,empty);")]),
    # reverts the fix of server:store-with-empty-trigger-name-refused (ee86997)
    dict(name="revert-fix-empty-trigger-name-refused", edits=[(SV, "\t\t\tunsigned size=strlen(start);\n\t\t\tstd::string tmp;", "\t\t\tunsigned size=strlen(start);\n\t\t\tif(size==0) {\n\t\t\t\treturn false;\n\t\t\t}\n\t\t\tstd::string tmp;")]),
    # reverts the fix of l1:refresh-merges-stale-triggers (da2af65)
    dict(name="revert-fix-l1-refresh-merges-triggers", edits=[(CO, "\t\t\tif(l1_->fetch(key,a,&l1_triggers,timeout_out,gen)) {", "\t\t\tif(l1_->fetch(key,a,tags,timeout_out,gen)) {")]),
    # own (frames group): the store frame validation accepts length fields that add up to less than the frame
    dict(name="server-store-accepts-short-length-sum", edits=[(SV, "+hin_.operations.store.triggers_len != hin_.size", "+hin_.operations.store.triggers_len > hin_.size")]),
]
