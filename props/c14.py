"""C14 — text validators accept exactly the well-formed strings of their encoding."""
import os
import verif
from verif import Unit, rc_params

ENGINE = "enumeration+rapidcheck"
ID = "C14"
TECHNIQUE = ("exhaustive enumeration of every byte sequence of length 1..4 (2^32+2^24+2^16+2^8 buffers, the complete input space of both "
             "UTF-8 next-character decoders) against an RFC 3629 table; all bytes and byte pairs of every single-byte code page against the "
             "property's byte rules and glibc iconv; rapidcheck long strings (valid/invalid pieces) through the whole-string API, the filters "
             "and the form text widget under ASan/UBSan")
LEVEL = "exploration"
LEVEL_TEXT = ("The per-character decoders (cppcms::utf8::next html on/off, booster utf_traits<char>::decode) and the header-level string "
              "validators are decided exhaustively for all inputs of up to four bytes in both tiers; the 36 registered code-page names are "
              "enumerated over all 256 bytes and all 65 536 byte pairs; longer strings (0..4 KiB), name spellings, replacement characters, "
              "fall-back code pages and widget length limits are sampled.")
LEVEL_NOTE = ("Trusts the 60-line RFC 3629 reference in harness/c14_ref.h and, for the high half of the code pages, glibc's iconv tables. "
              "Strings longer than four bytes are sampled, not enumerated; fall-back (iconv/ICU) code pages are only checked for control "
              "rejection, ASCII acceptance, byte-wise judgement and valid filter output.")
DESIGN_REF = "3/C14"
RULE = ("sweep: every buffer of 1..4 bytes, sharded by lead byte (16 shards); non-trivial = the buffer starts with a non-ASCII byte or a C0/DEL "
        "control (exact count, the shards are disjoint). cp: every (name spelling, 1- or 2-byte string); non-trivial = contains a byte >= 0x7F "
        "or a C0 control (exact count). random: rapidcheck strings of 0..700 (thorough 1400) pieces drawn from 13 piece kinds; non-trivial = "
        "contains a byte >= 0x80 or a C0/DEL control; distinct = hash of the string.")

SHARDS = 16


def specs():
    asan_dir = verif.cfg_dir("asan")
    return [
        # header-only: needs only booster/build_config.h from the configured build directory (created by build_libs for c14_text)
        dict(name="c14_sweep", srcs="c14_sweep.cpp", cfg=None, header_only=True, opt="-O2",
             extra=["-I" + asan_dir + "/booster", "-I" + asan_dir]),
        dict(name="c14_text", srcs="c14_text.cpp", cfg="asan", rapidcheck=True, extra=["-I" + os.path.join(verif.REPO, "tests")]),
    ]


def budgets(tier):
    if tier == "quick":
        return dict(utf8=(4, 5000), sbcs=(2, 6000), fallback=(1, 3000), widget=(2, 4000), cp=4)
    return dict(utf8=(12, 170000), sbcs=(4, 100000), fallback=(2, 40000), widget=(4, 60000), cp=8)


def units(bins, tier, seed):
    t, s = bins["c14_text"], bins["c14_sweep"]
    b = budgets(tier)
    us = []
    k = 0
    # the slower asan units first so that they overlap with the sweep shards
    for prop in ("utf8", "widget", "sbcs", "fallback"):
        procs, n = b[prop]
        for i in range(procs):
            env = {"C14_MODE": "rc", "RC_PARAMS": rc_params(seed * 1000 + k, n, 200)}
            if prop == "utf8" and i == 0:
                env["C14_BOUNDARY"] = 1
            us.append(Unit("c14_text.%s%d" % (prop, i), [t, "--only", prop], env=env, group="random." + prop))
            k += 1
    for i in range(b["cp"]):
        us.append(Unit("c14_text.cp%d" % i, [t], env={"C14_MODE": "cp", "C14_STRIDE": b["cp"], "C14_OFFSET": i}, group="codepages"))
    for i in range(SHARDS):
        us.append(Unit("c14_sweep.s%d" % i, [s], env={"C14_SHARD": i}, group="sweep"))
    return us


def floor(tier):
    b = budgets(tier)
    f = {"sweep": 2 ** 32 + 2 ** 24 + 2 ** 16 + 2 ** 8, "codepages": 36 * 65536}
    for prop in ("utf8", "sbcs", "fallback", "widget"):
        f["random." + prop] = b[prop][0] * b[prop][1]
    return f


def run(tier, seed):
    return verif.standard(ID, tier, seed, specs(), units, RULE, level=LEVEL, floor=floor,
                          assumptions=["the RFC 3629 reference table in harness/c14_ref.h is correct",
                                       "glibc iconv tables define exactly the assigned bytes of ISO-8859-x, windows-125x and KOI8-R/U",
                                       "the decoders read their input only through *p++ (over-reads in the -O2 sweep are detected via the iterator position, not ASan)"],
                          extra={"exhaustive_subspace": "all byte sequences of length 1..4 for utf8::next (html off/on), utf_traits<char>::decode, "
                                                        "utf8::validate and utf8_valid; all bytes and byte pairs for the 36 registered single-byte code-page names"})


def replay(path):
    return verif.standard_replay(specs(), path)


# sensitivity mutations (tools/sens.py -w 1 C14): (file, old, new) edits on a scratch copy; each must be caught by the quick tier.
# DESIGN S(i) `trail_length: c<194 -> c<192` and S(iii) `c<=244 -> c<=247` are *equivalent mutants* in private/utf_iterator.h
# (C0/C1 give a code point < 0x80 whose width is 1 != 2, F5..F7 give a code point > 0x10FFFF: both still end in `illegal`), so they are
# applied to the support library's copy, where they change illegal into incomplete, and realistic replacements are added for cppcms.
MUTATIONS = [
    dict(name="S1-booster-trail_length-194-to-192", edits=[("booster/booster/locale/utf.h", "if(BOOSTER_LOCALE_UNLIKELY(c < 194))", "if(BOOSTER_LOCALE_UNLIKELY(c < 192))")]),
    dict(name="S2-cppcms-drop-surrogate-test", edits=[("private/utf_iterator.h", "\t\tif(0xD800 <=v && v<= 0xDFFF) // surragates\n\t\t\treturn false;\n", "")]),
    dict(name="S3-booster-lead-244-to-247", edits=[("booster/booster/locale/utf.h", "if(BOOSTER_LOCALE_LIKELY(c <=244))", "if(BOOSTER_LOCALE_LIKELY(c <=247))")]),
    dict(name="S4-windows1251-accepts-152", edits=[("private/encoding_validators.h", "if(c<0x20 || 0x7F==c || c==152)", "if(c<0x20 || 0x7F==c)")]),
    dict(name="S5-filter-resync-plus-2", edits=[("src/encoding.cpp", "\t\t\t\tptr = prev + 1;\n", "\t\t\t\tptr = prev + 2;\n")]),
    dict(name="cppcms-trail_length-194-to-195", edits=[("private/utf_iterator.h", "            if(c < 194)\n", "            if(c < 195)\n")]),
    dict(name="cppcms-max-codepoint-1FFFFF", edits=[("private/utf_iterator.h", "\t\tif(v>0x10FFFF)\n", "\t\tif(v>0x1FFFFF)\n")]),
    dict(name="cppcms-width-7FF-off-by-one", edits=[("private/utf_iterator.h", "            else if(value <=0x7FF) {\n                return 2;", "            else if(value <0x7FF) {\n                return 2;")]),
    dict(name="cppcms-html-C1-bound-9F", edits=[("private/utf_iterator.h", "if(html && c<0xA0)", "if(html && c<0x9F)")]),
    dict(name="cppcms-html-accepts-DEL", edits=[("private/utf_iterator.h", "(lead >= 0x20 && lead!=0x7F)", "(lead >= 0x20)")]),
    dict(name="booster-drop-shortest-form-check", edits=[("booster/booster/locale/utf.h", "            if(BOOSTER_LOCALE_UNLIKELY(width(c)!=trail_size + 1))\n                return illegal;\n\n            return c;\n\n        }", "            return c;\n\n        }")]),
    dict(name="iso8859-C1-bound-9F", edits=[("private/encoding_validators.h", "\tbool iso_8859_1_2_4_5_9_10_13_14_15_16_valid(Iterator p,Iterator e,size_t &count)\n\t{\n\t\twhile(p!=e) {\n\t\t\tcount++;\n\t\t\tunsigned c=(unsigned char)*p++;\n\t\t\tif(c==0x09 || c==0xA || c==0xD)\n\t\t\t\tcontinue;\n\t\t\tif(c<0x20 || (0x7F<=c && c<0xA0))", "\tbool iso_8859_1_2_4_5_9_10_13_14_15_16_valid(Iterator p,Iterator e,size_t &count)\n\t{\n\t\twhile(p!=e) {\n\t\t\tcount++;\n\t\t\tunsigned c=(unsigned char)*p++;\n\t\t\tif(c==0x09 || c==0xA || c==0xD)\n\t\t\t\tcontinue;\n\t\t\tif(c<0x20 || (0x7F<=c && c<0x9F))")]),
    dict(name="filter-control-char-not-replaced", edits=[("src/encoding.cpp", "\t\t\telse {\n\t\t\t\tif(replace)\n\t\t\t\t\toutput+=replace;\n\t\t\t}\n", "\t\t\telse {\n\t\t\t}\n")]),
    dict(name="name-normaliser-drops-uppercase", edits=[("src/encoding.cpp", "\t\t\t\t\treturn char(c-'A'+'a');", "\t\t\t\t\tcontinue;")]),
    dict(name="widget-counts-bytes", edits=[("src/form.cpp", "\t\tif(!encoding::valid(context.locale(),value_.data(),value_.data()+value_.size(),code_points_))\n\t\t\tvalid(false);\n", "\t\tif(!encoding::valid(context.locale(),value_.data(),value_.data()+value_.size(),code_points_))\n\t\t\tvalid(false);\n\t\tcode_points_=value_.size();\n")]),
    dict(name="sbcs-filter-skips-first-byte", edits=[("src/encoding.cpp", "\t\tfor(char const *p=begin;p<end;p++) {\n\t\t\tsize_t n = 0;", "\t\tfor(char const *p=begin+1;p<end;p++) {\n\t\t\tsize_t n = 0;")]),
]
