"""C13 — the built-in file server never serves anything outside its document roots."""
import verif
from verif import Unit, rc_params

ID = "C13"
ENGINE = "rapidcheck"
TECHNIQUE = ("rapidcheck-generated request paths (segment grammar with '.', '..', empty, dot-files, symlinks, alias and near-alias names, raw/encoded "
             "separators and dots, NUL, non-UTF-8) against an in-process service with the file server over a sandbox tree of token files; "
             "safety predicate from the harness's own percent decoder + stack normaliser + realpath; differential check of normalize_path")
LEVEL = "exploration"
LEVEL_TEXT = ("Every regular file of the sandbox (document root, two alias targets, an outside area, symlinks inside->outside / inside->inside, "
              "dangling links, dot-files, names needing escaping) holds a token naming its real location. For each generated path the reply "
              "must be: the file the lexical path denotes (really inside the root when check_symlink is on), a redirect for a directory, a "
              "listing (only when enabled; no dot-files; HTML-escaped; exactly the directory's entries) or an error page. One process per "
              "configuration (check_symlink x listing x aliases x async file serving).")
LEVEL_NOTE = ("Sampling of the path grammar; the model (own decoder/normaliser + realpath) is the trusted base. Device nodes are not covered. "
              "Completeness is only asserted for plain files reached without links.")
DESIGN_REF = "3/C13"
RULE = ("case = request URI built from a target path (inside / through links / through aliases / escape attempts) decorated with './', 'x/../', "
        "'//', leading '../' runs, %2f and %2e, %00, or a free random segment sequence. Non-trivial: the decoded path contains '..' or an "
        "encoded separator, goes through an alias or a symlink (served file != lexical path), or the reply is a listing. Distinct = the URI.")

QUICK_CFGS = [1, 7, 2, 12, 3, 5]          # bit0 check_symlink, bit1 listing, bit2 aliases, bit3 async
ALL_CFGS = list(range(16))


def specs():
    return [dict(name="c13_fileserver", srcs="c13_fileserver.cpp", cfg="asan", rapidcheck=True, wraps=["readv", "writev"])]


def units(bins, tier, seed):
    b = bins["c13_fileserver"]
    cfgs, n = (QUICK_CFGS, 8000) if tier == "quick" else (ALL_CFGS, 40000)
    return [Unit("c13_fileserver.cfg%d" % c, [b], env={"C13_CFG": c, "RC_PARAMS": rc_params(seed * 1000 + c, n, 100)}, group="cfg%d" % c, timeout=7200) for c in cfgs]


def _cfg_of(path):
    import os, re
    m = re.search(r"cfg(\d+)", os.path.basename(path))
    return int(m.group(1)) if m else 1


def _replay_fn(bins):
    def fn(path):
        return verif.replay_with(bins["c13_fileserver"], extra_env={"C13_CFG": _cfg_of(path)})(path)
    return fn


def run(tier, seed):
    return verif.standard(ID, tier, seed, specs(), units, RULE, level=LEVEL,
                          floor=dict(("cfg%d" % c, 6000) for c in QUICK_CFGS),
                          assumptions=["harness path model (percent decoder, stack normaliser, realpath) is correct",
                                       "PATH_INFO is a C string: the model cuts the decoded path at the first NUL"],
                          replay_fn=_replay_fn)


def replay(path):
    bins = verif.build_many(specs())
    return _replay_fn(bins)(path)


MUTATIONS = [
    dict(name="is_file_prefix-no-separator-test", edits=[("src/internal_file_server.cpp", "\tif(full.size() > prefix_size && !is_directory_separator(full[prefix_size]))\n\t\treturn false;", "")]),
    dict(name="dotdot-climbs-above-root", edits=[("src/internal_file_server.cpp", "\t\t\tif(out > min_pos)\n\t\t\t\tout --;\n\t\t\twhile(out > min_pos) {", "\t\t\tout --;\n\t\t\twhile(out > min_pos) {")]),
    # (the design's "skip is_in_root when the path ends in '/'" is an equivalent mutant: normalize_path strips the trailing slash)
    dict(name="is_in_root-skipped-for-html-files", edits=[("src/internal_file_server.cpp", "\tif(check_symlinks_) {\n\t\tif(!is_in_root(normal,root,real))", "\tif(check_symlinks_ && (normal.size() < 6 || normal.compare(normal.size()-5,5,\".html\")!=0)) {\n\t\tif(!is_in_root(normal,root,real))")]),
    dict(name="listing-not-escaped", edits=[("src/internal_file_server.cpp", "<< util::urlencode(d.name()) << add << \"'>\" << util::escape(d.name()) << add", "<< util::urlencode(d.name()) << add << \"'>\" << d.name() << add")]),
    dict(name="listing-shows-dotfiles", edits=[("src/internal_file_server.cpp", "\t\tif(memcmp(d.name(),\".\",1) == 0)\n\t\t\tcontinue;", "\t\tif(strcmp(d.name(),\".\") == 0 || strcmp(d.name(),\"..\") == 0)\n\t\t\tcontinue;")]),
    dict(name="normalize-dotdot-regression", edits=[("src/internal_file_server.cpp", "\t\t\t\t\tout ++;\n\t\t\t\t\tbreak;", "\t\t\t\t\tbreak;")]),
    dict(name="alias-match-is-plain-prefix", edits=[("src/internal_file_server.cpp", "\t\tif(is_file_prefix(ref,normal))", "\t\tif(normal.compare(0,ref.size(),ref)==0)")]),
    dict(name="root-prefix-check-dropped", edits=[("src/internal_file_server.cpp", "\tif(!is_file_prefix(root,real))\n\t\treturn false;", "")]),
    dict(name="listing-when-disabled", edits=[("src/internal_file_server.cpp", "\t\t\tif(list_directories_) \n\t\t\t\tlist_dir(file_name,path);", "\t\t\tif(list_directories_ || file_name.size() > 12) \n\t\t\t\tlist_dir(file_name,path);")]),
]
