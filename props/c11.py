"""C11 — JSON parsing accepts exactly well-formed documents; serialization round-trips."""
import glob, json, os, shutil, struct, subprocess, sys, threading
import verif
from verif import Unit, rc_params, fuzz_unit

ID = "C11"
ENGINE = "libFuzzer+rapidcheck"
TECHNIQUE = ("libFuzzer on the parser entry points (grammar-aware custom mutator, JSON dictionary, seeds from json_test.cpp) + rapidcheck over "
             "API-built value trees, grammar-generated documents with single-byte edits and typed extraction; differential oracle = an independent "
             "strict RFC 8259 reference parser (itself cross-checked against Python's json on the run's inputs), round trip, ASan/UBSan")
LEVEL = "exploration"
LEVEL_TEXT = ("Every input is judged by an independent recursive-descent RFC 8259 parser (strtod, explicit UTF-8 table): strict documents with unique "
              "keys, finite numbers and depth <= 512 must be accepted with the identical tree through load(istream), load(range), prefix load and "
              "operator>> under a comma-decimal locale; whatever cppcms accepts must be accepted by the reference extended with the three tolerated "
              "leniencies (// comments, stream-extraction number forms, trailing comma) with the identical tree, repeated keys and depth > 512 must be "
              "refused, a failed load must leave the target untouched.  API-built trees are saved compact/readable under generated hostile stream and global "
              "locales (custom numpunct/ctype/num_put facets, every combination also in a fixed grid; the stream's locale must be unchanged afterwards) and must give strict JSON with the same strings and numbers within 16 digits, exact from the second round on.  get_value<T> is "
              "compared with a long-double representability test for 12 integer types, float, double, long double.")
LEVEL_NOTE = ("Sampling, not proof.  Trusts the 250-line reference parser (cross-checked against Python's json module on the fuzz corpus and on the generated "
              "documents of each run) and glibc strtod.  Rejection of `01`, `//` comments and trailing commas is deliberately not demanded.  Stream "
              "formatting flags other than the locale (fixed, showpos, precision) are not varied.  float-cast-overflow UBSan check is off for this "
              "harness: out-of-range double->integer casts in traits<T>::get are judged by their observable result only.")
DESIGN_REF = "3/C11"
RULE = ("parse (libFuzzer): any byte string up to 16 KiB (one unit 40 KiB); a case counts as non-trivial when the reference parser finds it "
        "well-formed (accepted / repeated key / too deep / out-of-range number) or read at least three tokens before the malformation. "
        "docs (rapidcheck): documents printed from generated trees, 40% with one byte replaced/inserted/deleted; same rule. "
        "roundtrip (rapidcheck): API-built trees x {compact, readable} x locale built from custom facets (decimal point . , other; separator , . blank '; "
        "grouping none 3 2 3-2 1; true/false names; optional digit-mangling ctype / '#' num_put) on the stream, in one unit also as the global locale; "
        "non-trivial = the locale differs from classic AND a number with >= 4 integer digits is written without exponent (classic-locale cases: depth >= 2 "
        "and a non-ASCII string or a non-integer number). grid: all 2x2x3x4x5x2x4 locale combinations once over a fixed tree. "
        "extract: non-trivial = fractional or |x| > 127. Distinct = hash of the document bytes / tree dump + mode / number bits.")

HERE = os.path.dirname(os.path.dirname(os.path.abspath(__file__)))
CORPUS = os.path.join(HERE, "corpus", ID)


def specs():
    nofc = ["-fno-sanitize=float-cast-overflow"]
    return [dict(name="c11_parse", srcs="c11_parse.cpp", cfg="asan", fuzzer=True, extra=nofc),
            dict(name="c11_values", srcs="c11_values.cpp", cfg="asan", rapidcheck=True, extra=nofc)]


REGRESSIONS = [("write:largest-doubles-print-as-out-of-range", os.path.join(HERE, "replays", ID, "known-c11_values-largest-double-roundtrip.case"))]

# budgets are case counts (measured: 700-1500 fuzz execs/s per process, 2.5-7 ms per rapidcheck tree/document depending on machine load)
QUICK = dict(fuzz_units=6, fuzz_runs=40000, rt=(5, 4000), docs=(4, 5000), ex=(1, 20000))
THOROUGH = dict(fuzz_units=8, fuzz_runs=400000, rt=(4, 40000), docs=(3, 80000), ex=(1, 400000))


def _asan():
    # smaller quarantine / allocation stacks: the trees are allocation-heavy (1.4 GB -> 60 MB per process, 30% faster); reports keep 6 frames
    return verif.san_env()["ASAN_OPTIONS"] + ":quarantine_size_mb=32:malloc_context_size=6"


def units(bins, tier, seed):
    p = QUICK if tier == "quick" else THOROUGH
    fz, rc = [], []
    # C11_FUZZ_SEEDS=0 (diagnostic, used for the sensitivity table): start the fuzzers from an empty corpus, so that a catch is due to
    # generated inputs and not to a hand-written seed
    seeds = [os.path.join(CORPUS, "seeds"), os.path.join(HERE, "replays", ID)] if os.environ.get("C11_FUZZ_SEEDS", "1") != "0" else []
    for i in range(p["fuzz_units"]):
        fz.append(fuzz_unit("c11_parse.fz%d" % i, bins["c11_parse"], ID, seed * 1000 + i, p["fuzz_runs"],
                            max_len=40000 if i == 0 else 16384, seeds=seeds, dict_file=os.path.join(CORPUS, "json.dict"),
                            group="parse", len_control=0, timeout=5400, env={"ASAN_OPTIONS": _asan()}, extra=["-detect_leaks=0"]))
    b = bins["c11_values"]
    k = 0
    for (name, key, size) in (("roundtrip", "rt", 100), ("docs", "docs", 100), ("extract", "ex", 100)):
        n_units, n = p[key]
        for i in range(n_units):
            k += 1
            env = {"RC_PARAMS": rc_params(seed * 1000 + 10 * k, n, size), "C11_XCHECK": "1", "ASAN_OPTIONS": _asan()}
            uname = "c11_values.%s%d" % (name, i)
            if name == "roundtrip" and i == n_units - 1:
                # the dedicated (single-threaded) unit that also installs the generated locale as the *global* C++ locale around save()/load()
                env["C11_GLOBAL"] = "1"
                uname = "c11_values.roundtripg%d" % i
            rc.append(Unit(uname, [b, "--only", name], env=env, group=name, timeout=5400))
    # every combination of the locale dimension once over a fixed tree (seed-independent)
    rc.append(Unit("c11_values.grid0", [b, "--grid"], env={"ASAN_OPTIONS": _asan()}, group="grid", timeout=5400))
    # interleaved so that the evidence samples (first 12 over the units in order) show every kind of case
    by = {}
    for u in rc:
        by.setdefault(u.group, []).append(u)
    us = []
    while fz or any(by.values()):
        if fz:
            us.append(fz.pop(0))
        for g in ("roundtrip", "docs", "extract", "grid"):
            if by.get(g):
                us.append(by[g].pop(0))
    # regression cases of reported defects run (and print KNOWN-FINDING / must pass once fixed) as soon as known_findings.json lists their signature;
    # until then the class is only excluded by construction (coverage.excluded_known_classes) and the case file is kept for --replay.
    for j, (sig, case) in enumerate(REGRESSIONS):
        if any(verif.sig_match(e.get("signature", ""), sig) for e in verif.load_known(ID)):
            us.append(Unit("c11_values.regress%d" % j, [b, "--regress", case], group="regress"))
    return us


# ---- cross-check of the harness's reference parser against Python's json module -------------------------------------------------------
class _Dup(Exception):
    pass


def _py_verdict(data):
    """(verdict, dump) of a strict RFC 8259 reading of `data` by Python's json; verdict in accept/nonfinite/reject (reject covers dup/deep)."""
    try:
        text = data.decode("utf-8")
    except UnicodeDecodeError:
        return "reject", "-"
    state = {"dup": False}

    def pairs(ps):
        keys = [k for k, _ in ps]
        if len(set(keys)) != len(keys):
            state["dup"] = True
        return ("O", ps)

    def const(_):
        raise ValueError("constant")
    try:
        obj = json.loads(text, object_pairs_hook=pairs, parse_float=lambda s: ("D", s), parse_int=lambda s: ("D", s), parse_constant=const)
    except (ValueError, RecursionError):
        return "reject", "-"
    out = []
    flags = {"nonfinite": False, "surrogate": False, "depth": 0}

    def hexs(s):
        for ch in s:
            if 0xD800 <= ord(ch) <= 0xDFFF:
                flags["surrogate"] = True
                return ""
        return s.encode("utf-8").hex()

    # iterative walk (documents may be 512 deep and Python lists nest freely)
    stack = [("v", obj, 0)]
    while stack:
        kind, x, d = stack.pop()
        if kind == "k":
            out.append("k" + hexs(x))
            continue
        if x is None:
            out.append("n")
        elif x is True:
            out.append("t")
        elif x is False:
            out.append("f")
        elif isinstance(x, str):
            out.append("s" + hexs(x))
        elif isinstance(x, tuple) and x[0] == "D":
            f = float(x[1])
            if f in (float("inf"), float("-inf")):
                flags["nonfinite"] = True
            out.append("d%016x" % struct.unpack(">Q", struct.pack(">d", f))[0])
        elif isinstance(x, tuple) and x[0] == "O":
            flags["depth"] = max(flags["depth"], d + 1)
            out.append("o%d" % len(x[1]))
            for k, v in reversed(x[1]):
                stack.append(("v", v, d + 1))
                stack.append(("k", k, d + 1))
        elif isinstance(x, list):
            flags["depth"] = max(flags["depth"], d + 1)
            out.append("a%d" % len(x))
            for v in reversed(x):
                stack.append(("v", v, d + 1))
        else:
            return "reject", "-"
    if flags["surrogate"] or state["dup"] or flags["depth"] > 512:
        return "reject", "-"
    return ("nonfinite" if flags["nonfinite"] else "accept"), " ".join(out) + " "


def _cross_check(res, units_, bins):
    files = []
    for u in units_:
        if u.corpus_dir and os.path.isdir(u.corpus_dir):
            files += sorted(os.path.join(u.corpus_dir, f) for f in os.listdir(u.corpus_dir))
    sdir = os.path.join(verif.BUILD, "scratch", "%s-%d" % (ID, os.getpid()))
    files += sorted(glob.glob(os.path.join(sdir, "u*", "xcheck", "*.json")))
    files += sorted(glob.glob(os.path.join(CORPUS, "seeds", "*")))
    if res.tier == "quick" and len(files) > 6000:
        files = files[::max(1, len(files) // 6000)]
    lst, outp = os.path.join(sdir, "xcheck.list"), os.path.join(sdir, "xcheck.out")
    os.makedirs(sdir, exist_ok=True)
    with open(lst, "w") as fh:
        fh.write("\n".join(files) + "\n")
    r = subprocess.run([bins["c11_values"], "--refdump", lst, outp], env=verif.san_env(), stdout=subprocess.PIPE, stderr=subprocess.STDOUT, text=True, errors="replace")
    if r.returncode != 0:
        res.broken.append("reference dump failed rc=%s %s" % (r.returncode, r.stdout[-2000:]))
        return
    result = {"n": 0, "bad": []}

    def work():
        sys.setrecursionlimit(200000)
        for line in open(outp, encoding="utf-8", errors="surrogateescape"):
            parts = line.rstrip("\n").split("\t")
            if len(parts) != 5:
                continue
            path, verdict, lenient, why, dump = parts
            strict = verdict if lenient == "0" else ("reject" if verdict in ("accept", "nonfinite") else verdict)
            if strict in ("dupkey", "too-deep"):
                strict = "reject"
            try:
                data = open(path, "rb").read()
            except OSError:
                continue
            pv, pdump = _py_verdict(data)
            result["n"] += 1
            if pv != strict or (pv in ("accept", "nonfinite") and pdump != dump):
                result["bad"].append((path, strict, pv))

    threading.stack_size(512 * 1024 * 1024)
    t = threading.Thread(target=work)
    t.start()
    t.join()
    threading.stack_size(0)
    res.extra["reference_cross_check"] = {"documents_compared_with_python_json": result["n"], "disagreements": len(result["bad"])}
    if result["bad"]:
        keep = os.path.join(verif.BUILD, "c11-xcheck-disagreements")
        os.makedirs(keep, exist_ok=True)
        for (path, a, b) in result["bad"][:20]:
            shutil.copy(path, os.path.join(keep, os.path.basename(path)))
        res.broken.append("reference parser disagrees with Python json on %d documents (copies in %s): %s" % (
            len(result["bad"]), keep, "; ".join("%s ref=%s py=%s" % (os.path.basename(p), a, b) for p, a, b in result["bad"][:5])))
    for u in units_:
        if u.corpus_dir:
            shutil.rmtree(u.corpus_dir, ignore_errors=True)


def floor(tier):
    p = QUICK if tier == "quick" else THOROUGH
    return {"grid": 1921, "parse": p["fuzz_units"] * p["fuzz_runs"] // 2, "roundtrip": p["rt"][0] * p["rt"][1], "docs": p["docs"][0] * p["docs"][1], "extract": p["ex"][0] * p["ex"][1]}


def run(tier, seed):
    return verif.standard(ID, tier, seed, specs(), units, RULE, level=LEVEL, floor=floor, fuzz_names=["c11_parse"], post=_cross_check,
                          assumptions=["the reference parser in harness/c11_ref.h implements RFC 8259 (checked per run against Python's json module)",
                                       "glibc strtod is correctly rounded", "depth bound 512 as in tests/json_test.cpp (deepa(512) loads, deepa(513) does not)",
                                       "tolerated leniencies: // comments, number forms read by classic-locale stream extraction (01, 1., -.5), trailing comma"])


def replay(path):
    return verif.standard_replay(specs(), path, fuzz_names=["c11_parse"])


# sensitivity mutations (tools/sens.py -w 3 C11)
_J = "src/json.cpp"
MUTATIONS = [
    # S (i): a lone low surrogate escape (\uDC00) ends up accepted because the final UTF-8 validation lets encoded low surrogates through
    dict(name="lone-low-surrogate-accepted", edits=[("private/utf_iterator.h", "if(0xD800 <=v && v<= 0xDFFF) // surragates", "if(0xD800 <=v && v<= 0xDBFF) // surragates")]),
    # S (ii): control check off by one in the string tokeniser (raw 0x1F accepted)
    dict(name="parser-control-check-0x1E", edits=[(_J, "if(0<= c && c <= 0x1F)", "if(0<= c && c <= 0x1E)")]),
    # S (iii): duplicate key no longer an error
    dict(name="duplicate-key-accepted", edits=[(_J, "\t\t\t\t\t\tif(res.second==false) {\n\t\t\t\t\t\t\tstate=st_error;\n\t\t\t\t\t\t\tbreak;\n\t\t\t\t\t\t}\n", "")]),
    # S (iv): 6 significant digits
    dict(name="precision-6", edits=[(_J, "std::setprecision(std::numeric_limits<double>::digits10+1)", "std::setprecision(6)")]),
    # S (v): result swapped into the target before the trailing-input test
    dict(name="swap-before-eof-test", edits=[(_J, "\t\t\tif(state==st_done) { \n\t\t\t\tif(force_eof) {", "\t\t\tif(state==st_done) { \n\t\t\t\tout.swap(result);\n\t\t\t\tif(force_eof) {"),
                                             (_J, "\t\t\t\t}\n\t\t\t\tout.swap(result);\n\t\t\t\treturn true;", "\t\t\t\t}\n\t\t\t\treturn true;")]),
    # own: off-by-one precision (15 digits)
    dict(name="precision-15", edits=[(_J, "std::numeric_limits<double>::digits10+1)", "std::numeric_limits<double>::digits10)")]),
    # own: depth bound off by one (512 nested containers refused)
    dict(name="depth-bound-lt", edits=[(_J, "stack.size() <= json_max_depth", "stack.size() < json_max_depth")]),
    # own: depth bound 513
    dict(name="depth-bound-513", edits=[(_J, "static const size_t json_max_depth = 512;", "static const size_t json_max_depth = 513;")]),
    # own: writer does not switch the stream to the C locale
    dict(name="writer-keeps-stream-locale", edits=[(_J, "\t\tout.imbue(std::locale(\"C\"));\n", "")]),
    # own: tokeniser does not switch the stream to the classic locale
    dict(name="parser-keeps-stream-locale", edits=[(_J, "\t\t\t\tis_.imbue(std::locale::classic());\n", "")]),
    # own: writer control check off by one (0x1F written raw)
    dict(name="writer-control-check-0x1E", edits=[(_J, "if(c<=0x1F) {", "if(c<0x1F) {")]),
    # own: writer swaps two short escapes
    dict(name="writer-formfeed-as-newline", edits=[(_J, "case '\\f': addon = \"\\\\f\"; break;", "case '\\f': addon = \"\\\\n\"; break;")]),
    # own: second escape of a pair not checked to be a low surrogate
    dict(name="second-surrogate-unchecked", edits=[(_J, "\t\t\t\t\t\t\t\t\tif(!utf16::is_second_surrogate(x))\n\t\t\t\t\t\t\t\t\t\treturn false;\n", "")]),
    # own: the \/ escape dropped
    dict(name="solidus-escape-rejected", edits=[(_J, "\t\t\t\t\t\tcase\t'/':\n", "")]),
    # own: surrogate combination loses the 0x10000 offset
    dict(name="surrogate-combine-offset", edits=[("private/utf_iterator.h", "return ((uint32_t(w1 & 0x3FF) << 10) | (w2 & 0x3FF)) + 0x10000;", "return ((uint32_t(w1 & 0x3FF) << 10) | (w2 & 0x3FF)) + 0x1000;")]),
    # own (class of seeded C11-3): the writer switches to the C locale only when the decimal point differs (digit grouping / foreign num_put stay active)
    dict(name="writer-imbue-only-if-decimal-differs", edits=[(_J, "\t\tout.imbue(std::locale(\"C\"));\n",
                                                             "\t\tif(std::use_facet<std::numpunct<char> >(out.getloc()).decimal_point()!='.') out.imbue(std::locale(\"C\"));\n")]),
    # own: the writer keeps the caller's non-numpunct facets (only numpunct is replaced): a foreign num_put / ctype still formats the numbers
    dict(name="writer-imbue-numpunct-only", edits=[(_J, "\t\tout.imbue(std::locale(\"C\"));\n",
                                                   "\t\tout.imbue(std::locale(original,new std::numpunct<char>()));\n")]),
    # own: the stream's locale is not put back after writing
    dict(name="writer-locale-not-restored", edits=[(_J, "\t\tout.imbue(original);\n\n\t}", "\n\t}")]),
    # own: integer extraction compares the wrong way round (fractions truncate silently)
    dict(name="int-extraction-truncates", edits=[("cppcms/json.h", "\t\t\tif(res!=v.number())\t\t\t\t\\", "\t\t\tif(res>v.number())\t\t\t\t\\")]),
    # own: float extraction loses its upper range check
    dict(name="float-extraction-no-upper-bound", edits=[("cppcms/json.h", "\t\t\t     || std::numeric_limits<float>::max() < r )", "\t\t\t     || std::numeric_limits<float>::max() < -r )")]),
    # own: trailing input after the document no longer an error for full loads
    dict(name="trailing-garbage-accepted", edits=[(_J, "if(tock.next()!=tock_eof) {", "if(tock.next()==tock_err) {")]),
]
