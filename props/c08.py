"""C08 — the cache stays within its limit; evicts expired, then least-recently-used; memory of removed entries is released."""
import verif
from verif import Unit, rc_params

ID = "C08"
TECHNIQUE = ("model-based testing with rapidcheck: random operation histories (limits 1..8, more keys than the limit, clock advances) on "
             "thread_shared and process_shared caches in lock-step with a set-of-states reference model (expired-then-LRU victim rule, "
             "exact key/trigger counts), small shared segments with values up to beyond the segment size, fill/empty/refill cycles; "
             "virtual clock, ASan/UBSan")
LEVEL = "exploration"
LEVEL_TEXT = ("After every operation the reported key and trigger counts must be explained by at least one state of the reference model, "
              "every fetch result (hit/miss, value, trigger set, deadline) must be explained too and prunes the state set; the count never "
              "exceeds the limit. On 512 KiB..4 MiB segments the model additionally admits memory-pressure evictions in the same victim "
              "order, refusal and the documented full clear, but never stale data; fill/empty/refill cycles that keep live data below "
              "1/16 of the segment are checked exactly, so unreleased memory appears as lost entries. Long runs (thousands of fill/empty "
              "cycles with fresh key and trigger names in every cycle, emptied by rise/remove/overwrite/expiry/eviction/clear) keep that "
              "exact oracle running until a per-entry leak would have eaten a 512 KiB..2 MiB segment, and compare the largest value that "
              "fits into the empty cache before and after the run.")
LEVEL_NOTE = ("Random sampling of histories (no exhaustive part); shmem_control::max_available() is not reachable, so release of memory is "
              "observed behaviourally; above 1/16 segment occupancy the shared-memory oracle is a consistency check (a store that is "
              "silently dropped is accepted there as long as the value it was to replace is gone too).")
DESIGN_REF = "3/C08"
RULE = ("case = (back-end, segment, limit, history of store/fetch/rise/remove/clear/tick). lru: limit 1..8, limit..limit+8 keys, <=150 "
        "operations; shm: limits {0,1,2,4,8,64}, 3..9 keys, value sizes 0..1.5x segment; cycles: 2..48 (thorough 120) fill/empty rounds of "
        "1..8 values emptied by clear/remove/rise/expiry/overwrite. Non-trivial: an eviction happened while both an expired and a live "
        "entry existed, or a fetch moved the LRU tail before an LRU eviction (lru); the history ran under possible memory pressure (shm); "
        "every cycles case; long: 1..3 phases of (cycles x fill n fresh entries, empty by one of rise own-key / shared / extra trigger, "
        "remove, overwrite with a past deadline, expiry, eviction by limit, clear), 300..7000 (thorough 20000) removals per case on "
        "512 KiB..2 MiB (thorough 4 MiB), limit 1..8, non-trivial when >= 1000 removals happened without an intervening clear(). "
        "Capacity probe: largest buddy size class 2^c-64 bytes that can be stored into the empty cache, before vs after (tolerance 1 "
        "class; measured drop on the unchanged tree: 0 in every case). Distinct = hash of the serialised case.")

BIG = 262144


def specs():
    return [dict(name="c07_evict", srcs="c07_evict.cpp", cfg="asan", rapidcheck=True, wraps=["time"], opt="-O2")]


def units(bins, tier, seed):
    b = bins["c07_evict"]
    thorough = tier == "thorough"
    us = []
    k = [0]

    def add(kind, be, seg, n, cnt, group):
        for i in range(cnt):
            us.append(Unit("c07_evict.%s-b%d-s%d-%d" % (kind, be, seg, i), [b, "--only", kind],
                           env={"C07_BACKEND": be, "C07_SEG_KIB": seg, "RC_PARAMS": rc_params(seed * 1000 + k[0], n, 200)}, group=group, timeout=3000))
            k[0] += 1
    add("lru", 0, 0, 3000 if not thorough else 50000, 4 if not thorough else 5, "lru")
    add("lru", 1, BIG, 3000 if not thorough else 50000, 2, "lru")
    for seg in (512, 1024, 4096):
        if thorough:    # same totals per segment size, more shards for the slow large segment
            add("shm", 1, seg, 5000 if seg == 4096 else 10000, 4 if seg == 4096 else 2, "shm")
            add("cycles", 1, seg, 2000, 2, "cycles")
        else:
            add("shm", 1, seg, 1000, 1, "shm")
            add("cycles", 1, seg, 500, 1, "cycles")
    add("long", 1, 512, 30 if not thorough else 75, 3 if not thorough else 8, "long")     # the segment size is generated per case
    # one unit of each kind first (the evidence keeps the samples of the first units)
    first = [u for u in us if u.name.endswith("-0") and ("s512" in u.name or "lru" in u.name)]
    first = [u for u in us if ".long" in u.name] + [u for u in first if ".long" not in u.name]   # the long runs are the slowest units
    return first + [u for u in us if u not in first]


def floor(tier):
    if tier == "thorough":
        return {"lru": 7 * 50000, "shm": 6 * 10000, "cycles": 3 * 4000, "long": 8 * 75}
    return {"lru": 6 * 3000, "shm": 3 * 1000, "cycles": 3 * 500, "long": 3 * 30}


def run(tier, seed):
    return verif.standard(ID, tier, seed, specs(), units, RULE, level=LEVEL, floor=floor,
                          assumptions=["the reference model in harness/c07_model.h (BranchModel) is correct",
                                       "time() is the only clock the cache consults (interposed at link time)",
                                       "a buddy allocator whose live blocks stay below 1/16 of the segment never has to split its top half "
                                       "(no memory-pressure eviction, no bad_alloc) unless memory was not released"])


def replay(path):
    return verif.standard_replay(specs(), path)


MUTATIONS = [
    # S(i) the cache may hold limit+1 entries
    dict(name="check_limits-off-by-one", edits=[("src/cache_storage.cpp", "(size>=limit && limit>0)", "(size>limit && limit>0)")]),
    # S(ii) the most recently used entry is evicted instead of the least recently used
    dict(name="evicts-lru-head", edits=[("src/cache_storage.cpp", "main=*lru.rbegin();", "main=*lru.begin();")]),
    # S(iii) fetch no longer refreshes the LRU position
    dict(name="fetch-no-lru-update", edits=[("src/cache_storage.cpp", "\t\t\tlru.erase(p->second.lru);\n\t\t\tlru.push_front(p);\n\t\t\tp->second.lru=lru.begin();\n", "")]),
    # S(iv) trigger link count is not decremented when an entry goes
    dict(name="delete_node-forgets-triggers_count", edits=[("src/cache_storage.cpp", "\t\t\ttriggers_count --;\n", "")]),
    # own: an entry that expires exactly now is treated as expired by the eviction (it is still live for fetch)
    dict(name="check_limits-expired-le-now", edits=[("src/cache_storage.cpp", "timeout.begin()->first<now) {", "timeout.begin()->first<=now) {")]),
    # own: the expired-first rule is dropped, eviction is pure LRU
    dict(name="check_limits-ignores-expired", edits=[("src/cache_storage.cpp", "if(!timeout.empty() && timeout.begin()->first<now) {", "if(false) {")]),
    # own: memory of removed entries is not given back to the shared segment
    dict(name="shmem-free-is-noop", edits=[("private/shmem_allocator.h", "\t\treturn mm->free(p);\n", "\t\t(void)p;\n")]),
    # reverts the fix of the finding shm:failed-store-keeps-old-value (a store refused for lack of shared memory left the old value)
    dict(name="revert-fix-failed-store-keeps-old-value", edits=[("src/cache_storage.cpp", "\t\t\tremove(key);\n\t\t\treturn;", "\t\t\treturn;")]),
    # own: a trigger record whose last entry went away is never erased (leaks one record per distinct trigger name)
    dict(name="delete_node-keeps-empty-trigger-records", edits=[("src/cache_storage.cpp", "\t\t\tif(i->first->second.empty())\n\t\t\t\ttriggers.erase(i->first);\n", "")]),
]
