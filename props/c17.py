"""C17 — every scheduled handler runs exactly once: posts, timers, I/O waits, pool jobs."""
import json, os
import verif
from verif import Unit, rc_params

ID = "C17"
TECHNIQUE = ("rapidcheck-generated multi-threaded programs against a running booster::aio::io_service (each reactor) and cppcms::thread_pool; "
             "exactly-once ledger oracle, quiescence detection through interposed poll primitives; ThreadSanitizer and ASan/UBSan builds")
LEVEL = "exploration"
LEVEL_TEXT = ("Generated programs of 1-6 producer threads (post, timers with past/equal/near/far deadlines, timer cancel by any thread, "
              "set_io_event / cancel_io_events on socket pairs whose readiness other operations create, deadline_timer and stream_socket "
              "operations carried onto the loop thread, throwing handlers, stop racing with posts) run against one io_service per "
              "reactor {select, poll, epoll} over 1-3 epochs (drain, stop from another thread while the loop sleeps / from a handler, run() returns, "
              "reset(), run() again on the same or a new thread, then one cross-thread operation at a time while the loop sleeps); descriptors with an armed wait are closed (stream_socket::close or "
              "cancel_io_events + ::close) by another thread while the loop sleeps or by a handler, a new socket pair re-uses the number and must get its "
              "events; every handler must be invoked exactly once on the loop thread, with success only if its event "
              "happened (timers: not before the deadline) and with canceled only if a cancel call had not returned before it was armed (descriptor operations take "
              "effect in call order; a cancel must deliver every handler registered before it). Pool programs: at most once, "
              "exactly once unless cancel() returned true, throwing jobs keep the workers alive.")
LEVEL_NOTE = ("Thread schedules are sampled by the OS scheduler with generated noise, not enumerated; data races are only seen when TSan "
              "observes both accesses. Liveness is decided by a quiescence argument (loop blocked indefinitely, nothing ready, all other "
              "threads waiting); for the pool by the kernel state of its worker threads (all blocked, no context switch over three samples, every "
              "poster finished or waiting, a job whose post() returned still owed). A wall-clock watchdog is only a safety net (inconclusive).")
DESIGN_REF = "3/C17"
RULE = ("case = (reactor, final mode drain|stop-race, socket pairs, per-producer operation lists, epochs with stop mode / restart mode / probe "
        "order, close-and-reuse scenarios). Non-trivial: more than one epoch (stop, reset, run again), a descriptor closed with an armed wait and its "
        "number re-used, or the program contains a cancel "
        "(timer, descriptor, deadline_timer, stream) or two producers touch the same descriptor or stop races with the producers; pool: more "
        "than one poster, a cancel, a throwing job or stop-race. Distinct = hash of the encoded case. Classes loop.* / pool.* count what "
        "actually happened at run time (fired / canceled / fired despite cancel / cancel after fire / armed during or after a cancel call / "
        "re-armed over a cancelled outstanding handler / cancel followed by a delivery check ...).")
HERE = verif.VERIF
KNOWN_SIGS = ["io:deferred-cancel-hits-later-registration", "io:cancel-misses-queued-registration"]
REACTORS = {1: "select", 2: "poll", 3: "epoll"}


def specs():
    wraps = ["epoll_wait", "poll", "select"]
    return [dict(name="c17_sched_tsan", srcs="c17_sched.cpp", cfg="tsan", rapidcheck=True, wraps=wraps),
            dict(name="c17_sched_asan", srcs="c17_sched.cpp", cfg="asan", rapidcheck=True, wraps=wraps)]


def include_known():
    if os.environ.get("C17_INCLUDE_KNOWN"):
        return True
    return any(verif.sig_match(k.get("signature", ""), s) for k in verif.load_known(ID) for s in KNOWN_SIGS)


def budget(tier):
    # cases per unit: lt = loop/tsan (one unit per reactor), la = loop/asan (reactor drawn per case), pt / pa = pool tsan / asan; sh = shards of each
    return dict(lt=2200, la=3500, pt=1500, pa=2200, sh=1) if tier == "quick" else dict(lt=16000, la=20000, pt=12000, pa=16000, sh=2)


def units(bins, tier, seed):
    b = budget(tier)
    us = []
    i = 0
    for k in range(b["sh"]):
        for r, rn in REACTORS.items():
            us.append(Unit("c17_sched_tsan.loop.%s%d" % (rn, k), [bins["c17_sched_tsan"], "--only", "loop"],
                           env={"C17_REACTOR": r, "RC_PARAMS": rc_params(seed * 1000 + i, b["lt"], 100)}, group="loop-tsan-" + rn, timeout=1500 if tier == "quick" else 5400)); i += 1
        us.append(Unit("c17_sched_asan.loop.any%d" % k, [bins["c17_sched_asan"], "--only", "loop"],
                       env={"C17_REACTOR": 0, "RC_PARAMS": rc_params(seed * 1000 + i, b["la"], 100), "VERIF_REGRESS": 1 if k == 0 else 0}, group="loop-asan", timeout=1500 if tier == "quick" else 5400)); i += 1
        us.append(Unit("c17_sched_tsan.pool.%d" % k, [bins["c17_sched_tsan"], "--only", "pool"],
                       env={"RC_PARAMS": rc_params(seed * 1000 + i, b["pt"], 100)}, group="pool-tsan", timeout=1500 if tier == "quick" else 5400)); i += 1
        us.append(Unit("c17_sched_asan.pool.%d" % k, [bins["c17_sched_asan"], "--only", "pool"],
                       env={"RC_PARAMS": rc_params(seed * 1000 + i, b["pa"], 100)}, group="pool-asan", timeout=1500 if tier == "quick" else 5400)); i += 1
    if include_known():    # all reactors x {re-arm after cancel, cancel after queued arm, number re-used via dup2, via close + socketpair}
        # + restart grid: reactor x {stop from another thread while the loop sleeps, stop from a handler} x {same thread, new thread runs again}
        #   x first operation after reset() {post, timer, timer+cancel, io+ready, io+cancel, stop}  (72 two-epoch cases of the loop property)
        # + pool grid: workers 1..4 x throwing jobs {0, w-1, w, w+1, 2w} x {std::exception, int} x {post at once, post after the pool went idle} (80 cases)
        # + close grid: reactor x {closed by another thread while the loop sleeps, by a handler with operations queued (issued before run() /
        #   inside a running loop), by a handler} x closed wait {in, out} x new wait {in, out, both} x {cancel_io_events + ::close, stream_socket::close}
        us.append(Unit("c17_sched_asan.fixed", [bins["c17_sched_asan"]], env={"C17_MODE": "fixed"}, group="fixed", timeout=1800))
    return us


def floor(tier):
    b = budget(tier)
    f = {"loop-asan": b["la"] * b["sh"], "pool-tsan": b["pt"] * b["sh"], "pool-asan": b["pa"] * b["sh"]}
    if include_known():
        f["fixed"] = 12 + 144 + 72 + 80 + 54
    for rn in REACTORS.values():
        f["loop-tsan-" + rn] = b["lt"] * b["sh"]
    return f


def run(tier, seed):
    return verif.standard(ID, tier, seed, specs(), units, RULE, level=LEVEL, floor=floor,
                          assumptions=["AF_UNIX socket pairs: a completed send()/shutdown() is visible to the next poll of the peer",
                                       "the interposed epoll_wait/poll/select only shorten the loop thread's indefinite waits (spurious time-outs are legal)",
                                       "timer deadlines are compared with booster::ptime::now(), the clock the library itself uses"],
                          extra={"reactors": list(REACTORS.values()), "known_ordering_scenarios_run": include_known()})


def replay(path):
    return verif.standard_replay(specs(), path)


IOS = "booster/lib/aio/src/io_service.cpp"
TP = "src/thread_pool.cpp"
MUTATIONS = [
    # pool: post() wakes a worker only when the queue was empty - with more than one worker, jobs posted in a row to an idle pool are
    # started one at a time only, a job that needs its siblings (or a long one in front) leaves the others unstarted for ever
    dict(name="pool-post-notifies-only-when-queue-was-empty", edits=[(TP, "\t\t\tqueue_.push_back(std::make_pair(id,job));\n\t\t\tcond_.notify_one();",
         "\t\t\tbool was_empty=queue_.empty();\n\t\t\tqueue_.push_back(std::make_pair(id,job));\n\t\t\tif(was_empty)\n\t\t\t\tcond_.notify_one();")]),
    # epoll reactor: the per-descriptor cache is not updated when epoll_ctl fails - EPOLL_CTL_DEL of a descriptor that was closed before its
    # queued cancel ran leaves "registered" behind, the next socket with that number is never added (same class as seeded/C17-3)
    dict(name="epoll-cache-stale-after-failed-del", edits=[("booster/lib/aio/src/reactor.cpp",
         "write_flag(fd,EPOLL_CTL_MOD,to_poll_events(flags),error);\n\t\t\tevents_[fd]=flags;", "write_flag(fd,EPOLL_CTL_MOD,to_poll_events(flags),error);\n\t\t\tif(!error) events_[fd]=flags;")]),
    # wake-ups are coalesced with a flag that io_service::reset() forgets to clear: after stop() from another thread + reset() + run()
    # no cross-thread operation wakes the sleeping loop any more (same class as seeded/C17-2, placed in io_service instead of the interrupter)
    dict(name="wake-coalescing-flag-survives-reset", edits=[
        (IOS, "\tvoid wake()\n\t{\n\t\tinterrupter_.notify();\n\t}", "\tvoid wake()\n\t{\n\t\tif(wake_pending_)\n\t\t\treturn;\n\t\twake_pending_ = true;\n\t\tinterrupter_.notify();\n\t}"),
        (IOS, "\t\t\t\tinterrupter_.clean();\n", "\t\t\t\tinterrupter_.clean();\n\t\t\t\twake_pending_ = false;\n"),
        (IOS, "\tunsigned seed_;\n", "\tunsigned seed_;\n\tbool wake_pending_ = false;\n")]),
    # reverts fix 4a502e5: a descriptor operation is executed directly although earlier ones are still queued
    dict(name="fd-ops-fifo-regression", edits=[(IOS, "if(polling_ || !reactor_.get() || deferred_fd_ops_ > 0) {", "if(polling_ || !reactor_.get()) {")]),
    # S(i): cancel_timer_event leaves the (now handler-less) registration in the timer table
    dict(name="timer-cancel-keeps-registration", edits=[(IOS, "\t\ttimer_events_.erase(evptr);\n\t\ttimer_events_index_[event_id]=timer_events_.end();\n\n\t\tif(polling_)", "\n\t\tif(polling_)")]),
    # S(ii): the ready read handler is copied, not moved out of the descriptor table -> delivered again by the next cancel / event
    dict(name="io-dispatch-copies-read-handler", edits=[(IOS, "dispatch_queue_.push_back(completion_handler(cont.readable,dispatch_error));",
                                                          "dispatch_queue_.push_back(completion_handler(static_cast<event_handler const &>(cont.readable),dispatch_error));")]),
    # S(iii): post() does not wake the polling loop
    dict(name="post-skips-wake", edits=[(IOS, "dispatch_queue_.push_back(completion_handler(h));\n\t\tif(polling_)\n\t\t\twake();", "dispatch_queue_.push_back(completion_handler(h));")]),
    # S(iv): pool worker takes a copy of the front job and pops only after running it
    dict(name="pool-pop-after-run", edits=[(TP, "\t\t\t\t\t\tqueue_.front().second.swap(job);\n\t\t\t\t\t\tqueue_.pop_front();\n", "\t\t\t\t\t\tjob = queue_.front().second;\n"),
                                           (TP, "\t\t\t\t\t\tBOOSTER_ERROR(\"cppcms\") << \"Catched unknown exception in thread pool\";\n\t\t\t\t\t}\n",
                                            "\t\t\t\t\t\tBOOSTER_ERROR(\"cppcms\") << \"Catched unknown exception in thread pool\";\n\t\t\t\t\t}\n"
                                            "\t\t\t\t\t{ booster::unique_lock<booster::mutex> lock(mutex_); if(!queue_.empty()) queue_.pop_front(); }\n")]),
    # off-by-a-little: expiry test lets a timer fire up to 2 ms early
    dict(name="timer-fires-early", edits=[(IOS, "timer_events_.begin()->first <= now) {", "timer_events_.begin()->first <= now + ptime::milliseconds(2)) {")]),
    # swapped operands: the read handler is dispatched when the descriptor became writable
    dict(name="io-dispatch-swapped-direction", edits=[(IOS, "if(cont.readable && (new_events & reactor::in) == 0) {", "if(cont.readable && (new_events & reactor::out) == 0) {")]),
    # dropped lock in post()
    dict(name="post-dropped-lock", edits=[(IOS, "void post(handler const &h)\n\t{\n\t\tlock_guard l(data_mutex_);\n", "void post(handler const &h)\n\t{\n")]),
    # dropped statement: cancel_io_events forgets the write handler
    dict(name="io-cancel-forgets-write-handler", edits=[(IOS, "\t\t\tif(cont.writeable)\n\t\t\t\tself_->dispatch_queue_.push_back(completion_handler(cont.writeable,e));\n", "")]),
    # stop() does not wake the polling loop
    dict(name="stop-skips-wake", edits=[(IOS, "\t\tstop_ = true;\n\t\tif(polling_)\n\t\t\twake();", "\t\tstop_ = true;")]),
    # pool: cancel reports success but leaves the job queued
    dict(name="pool-cancel-keeps-job", edits=[(TP, "\t\t\t\t\tqueue_.erase(p);\n\t\t\t\t\treturn true;", "\t\t\t\t\treturn true;")]),
    # pool: a job throwing something that is not a std::exception takes the process down
    dict(name="pool-unknown-exception-escapes", edits=[(TP, "\t\t\t\t\tcatch(...) {\n\t\t\t\t\t\tBOOSTER_ERROR(\"cppcms\") << \"Catched unknown exception in thread pool\";\n\t\t\t\t\t}\n", "")]),
]
