"""C09 — concurrent cache use is race-free and behaves like some sequential order."""
import os
import verif
from verif import Unit, rc_params

ID = "C09"
TECHNIQUE = ("rapidcheck generates concurrent programs (prelude + 2..8 thread programs over 3 keys / 3 triggers, limit 0/1/2/3, spin/yield noise); "
             "each case runs in a forked child against thread_cache_factory; oracle 1: ThreadSanitizer build reports nothing (happens-before "
             "race detection), oracle 2: ASan/UBSan build reports nothing, oracle 3 (both builds): the recorded history (invoke/response stamps, "
             "tagged values) is linearizable against an independent sequential reference cache (Wing-Gong/Lowe search)")
LEVEL = "exploration"
LEVEL_TEXT = ("Thread programs, start delays and per-operation spin counts are generated; the operating system chooses the interleaving. "
              "ThreadSanitizer's happens-before analysis generalises each observed execution over the schedules with the same synchronisation "
              "order; every recorded history must be explained by one sequential order consistent with real time in which the reference cache "
              "(replace on store, T u {k} triggers, LRU eviction under a limit) returns every observed fetch / stats result; values carry "
              "(store id, key, writer, length) and a position-dependent filler so torn or foreign values cannot be explained.")
LEVEL_NOTE = ("Schedules are sampled, not enumerated or controlled: an atomicity bug that is not a data race and needs a rare interleaving can "
              "be missed. A failing case is re-executed (up to 6x while shrinking, up to 300x on replay) because reproduction depends on the schedule. "
              "Watchdog hits (hung child) are inconclusive, never violations. Only the thread-shared in-memory cache is covered.")
DESIGN_REF = "3/C09"
RULE = ("case = (limit, sequential prelude, thread programs of store/fetch/rise/remove/clear/stats, start delays, spin counts); non-trivial: the "
        "recorded history contains two operations of different threads that overlap in time, touch a common key (rise(t) touches the keys stored "
        "with t, clear touches all) and one of them is a mutator; distinct = hash of the case whose execution produced such a history.")


def specs():
    return [dict(name="c09_conc_tsan", srcs="c09_conc.cpp", cfg="tsan", rapidcheck=True),
            dict(name="c09_conc_asan", srcs="c09_conc.cpp", cfg="asan", rapidcheck=True)]


def _budget(tier):
    # (units, cases per unit) for the tsan and the asan build
    if tier == "quick":
        return dict(tsan=(8, 1200), asan=(6, 1600))
    return dict(tsan=(10, 9000), asan=(6, 12000))


def units(bins, tier, seed):
    b = _budget(tier)
    us = []
    for cfg in ("tsan", "asan"):
        n, cases = b[cfg]
        for i in range(n):
            us.append(Unit("c09_conc_%s.rc%d" % (cfg, i), [bins["c09_conc_" + cfg]],
                           env={"RC_PARAMS": rc_params(seed * 1000 + (0 if cfg == "tsan" else 500) + i, cases, 100)},
                           group=cfg, timeout=3000))
        # the minimal shapes in which the sensitivity mutations were caught (replays/C09/reg-*.case), a few dozen executions each
        us.append(Unit("c09_conc_%s.reg" % cfg, [bins["c09_conc_" + cfg]],
                       env={"C09_REGRESS_DIR": os.path.join(verif.VERIF, "replays", ID), "C09_REGRESS_REPS": 40 if tier == "quick" else 400},
                       group="regress", timeout=3000))
    return us


def _floor(tier):
    b = _budget(tier)
    f = {cfg: int(b[cfg][0] * b[cfg][1] * 0.9) for cfg in b}
    f["regress"] = 2 * 4 * (40 if tier == "quick" else 400)
    return f


def run(tier, seed):
    return verif.standard(ID, tier, seed, specs(), units, RULE, level=LEVEL, floor=_floor,
                          assumptions=["invoke/response stamps from one atomic counter respect real time (x86 lock xadd; relaxed in the TSan build so the "
                                       "counter does not hide races)",
                                       "the sequential reference in harness/c09_model.h states the documented cache semantics (C07/C08 rules, far deadlines)",
                                       "ThreadSanitizer models pthread_rwlock/pthread_mutex correctly"],
                          extra={"schedule_control": "none (OS schedules; noise from the case); failing cases are re-executed up to 300x on replay"},
                          replay_env={"C09_REPLAY_REPS": 300})


def replay(path):
    return verif.standard_replay(specs(), path, replay_env={"C09_REPLAY_REPS": 300})


# sensitivity mutations (tools/sens.py -w 10 C09)
_F = "src/cache_storage.cpp"
MUTATIONS = [
    # S(i): rise takes only the shared lock
    dict(name="rise-shared-lock", edits=[(_F, "\t\twrlock_guard lock(*access_lock);\n\t\ttriggers_ptr p = triggers.find(trigger);",
                                          "\t\trdlock_guard lock(*access_lock);\n\t\ttriggers_ptr p = triggers.find(trigger);")]),
    # S(ii): LRU splice in fetch no longer serialised
    dict(name="fetch-lru-mutex-removed", edits=[(_F, "\t\t\tlock_guard lock(*lru_mutex);\n", "")]),
    # S(iii): the value is copied out after the lock was released
    dict(name="fetch-copy-after-unlock", edits=[
        (_F, "\t\trdlock_guard lock(*access_lock);\n\t\tpointer p;\n\t\ttime_t now;\n\t\ttime(&now);\n",
             "\t\tpointer p;\n\t\ttime_t now;\n\t\ttime(&now);\n\t\t{\n\t\trdlock_guard lock(*access_lock);\n"),
        (_F, "\t\tif(a)\n\t\t\t*a=to_std(p->second.data);\n\n", ""),
        (_F, "\t\tif(gen)\n\t\t\t*gen=p->second.generation;\n\n", "\t\tif(gen)\n\t\t\t*gen=p->second.generation;\n\t\t}\n\t\tif(a)\n\t\t\t*a=to_std(p->second.data);\n\n"),
    ]),
    # own: remove() takes the shared lock (wrong guard type)
    dict(name="remove-shared-lock", edits=[(_F, "\t\twrlock_guard lock(*access_lock);\n\t\tpointer p=primary.find(key);",
                                            "\t\trdlock_guard lock(*access_lock);\n\t\tpointer p=primary.find(key);")]),
    # own: clear() without any lock
    dict(name="clear-lock-dropped", edits=[(_F, "\t\twrlock_guard lock(*access_lock);\n\t\tnl_clear();", "\t\tnl_clear();")]),
    # own: stats() reads the counters without the lock (a pure data race, no wrong result on x86)
    dict(name="stats-lock-dropped", edits=[(_F, "\t\trdlock_guard lock(*access_lock);\n\t\tkeys=size;", "\t\tkeys=size;")]),
    # own: store() under the shared lock
    dict(name="store-shared-lock", edits=[(_F, "\t\twrlock_guard lock(*access_lock);\n\t\ttry {\n\t\t\tpointer main;",
                                           "\t\trdlock_guard lock(*access_lock);\n\t\ttry {\n\t\t\tpointer main;")]),
    # own: not a data race - store() replaces an entry in two critical sections (old entry removed, lock released, new entry inserted):
    # a concurrent fetch can miss a key that was never absent, two stores of one key can both insert
    dict(name="store-two-critical-sections", edits=[(_F, "\t\twrlock_guard lock(*access_lock);\n\t\ttry {\n\t\t\tpointer main;\n\t\t\tmain=primary.find(key);\n\t\t\tif(main!=primary.end())\n\t\t\t\tdelete_node(main);\n",
                                                     "\t\t{\n\t\t\twrlock_guard lock0(*access_lock);\n\t\t\tpointer old=primary.find(key);\n\t\t\tif(old!=primary.end())\n\t\t\t\tdelete_node(old);\n\t\t}\n"
                                                     "\t\twrlock_guard lock(*access_lock);\n\t\ttry {\n\t\t\tpointer main;\n")]),
    # own: not a data race - rise() invalidates only the first entry depending on the trigger (sequential slip the history check must see)
    dict(name="rise-kills-first-only", edits=[(_F, "\t\tfor(lptr=kill_list.begin();lptr!=kill_list.end();lptr++) {\n\t\t\tdelete_node(*lptr);\n\t\t}",
                                               "\t\tfor(lptr=kill_list.begin();lptr!=kill_list.end();lptr++) {\n\t\t\tdelete_node(*lptr);\n\t\t\tbreak;\n\t\t}")]),
]
