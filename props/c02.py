"""C02 — no request, however malformed, crashes the service or disturbs other requests."""
import os
import verif

ID = "C02"
ENGINE = "libFuzzer"
TECHNIQUE = ("coverage-guided fuzzing (libFuzzer, ASan+UBSan) of the in-process service, one campaign per front-end, structure-aware decoding "
             "(FuzzedDataProvider) into inconsistent protocol elements; oracle inside the target: service alive, exact probe replies on other "
             "connections, handler/filter ledger bounds, reply framing")
LEVEL = "exploration"
LEVEL_TEXT = ("Each execution sends one malformed byte stream (raw or built from protocol elements with inconsistent fields: absurd/negative "
              "Content-Length, bad netstring lengths, FastCGI records of any type/role/length, truncation, half-close, reset) under a generated "
              "read/write schedule to a live service, while a well-formed probe on a second connection and one afterwards must be answered exactly; "
              "sanitizers watch memory safety (peer-supplied lengths may not drive allocations of a GiB), the event loop must keep running, handler calls "
              "are bounded by the requests the bytes can hold, and streams that hold no acceptable request in any reading (header section without end "
              "in 32 KiB, FastCGI STDIN interrupted by a record of another type while body bytes are owed) must not reach the application at all. "
              "Structured builders cover request-target forms, cookie grammar, many-header keep-alive sequences, multipart bodies, FastCGI record soup.")
LEVEL_NOTE = ("Sampling guided by coverage; absence of crashes is not proven. Timing (slow-loris) is out of scope; late handler calls of an "
              "iteration are only bounded while that iteration is being checked.")
DESIGN_REF = "3/C02"
RULE = ("input = (mode raw|structured, read caps, write caps, disconnect behaviour, cut point for the mid-probe, truncation point, payload); "
        "non-trivial: the malformed stream reached the application layer or an error path (a handler ran with this iteration's tag, a content "
        "filter got on_error, or the reply was an error status); distinct = hash of the payload bytes.")


def specs():
    return [dict(name="c02_fuzz", srcs="c02_fuzz.cpp", cfg="asan", fuzzer=True, wraps=["readv", "writev"])]


def units(bins, tier, seed):
    b = bins["c02_fuzz"]
    us = []
    runs, per = (9000, 5) if tier == "quick" else (150000, 5)
    corp = os.path.join(verif.VERIF, "corpus", ID)
    i = 0
    for fe in "hsf":
        for k in range(per):
            us.append(verif.fuzz_unit("c02_fuzz.%s%d" % (fe, k), b, ID, seed * 100 + i, runs, max_len=1500,
                                      seeds=[os.path.join(corp, fe), os.path.join(verif.VERIF, "replays", ID, fe)],
                                      dict_file=os.path.join(corp, "dict.txt"), group="fuzz-" + fe, env=_env(fe), timeout=7200))
            i += 1
    return us


def _env(fe):
    # a length field of the peer must never drive an allocation of a GiB ("absurd Content-Length", SCGI netstring length, FastCGI
    # record sizes): ASan refuses such an allocation and the throwing operator new then reports it as an error
    return {"C02_FE": fe, "ASAN_OPTIONS": verif.san_env()["ASAN_OPTIONS"] + ":max_allocation_size_mb=1024"}


def _fe_of(path):
    b = os.path.basename(path)
    for c in "hsf":
        if "c02_fuzz.%s" % c in b:
            return c
    return "h"


def _replay_fn(bins):
    def fn(path):
        return verif.replay_with(bins["c02_fuzz"], extra_env=_env(_fe_of(path)), args_fn=lambda p: [bins["c02_fuzz"], p], timeout=300)(path)
    return fn


def run(tier, seed):
    return verif.standard(ID, tier, seed, specs(), units, RULE, level=LEVEL, fuzz_names=["c02_fuzz"],
                          floor={"fuzz-h": 20000, "fuzz-s": 20000, "fuzz-f": 20000},
                          assumptions=["probe encoders/de-framers in harness/common/vclient.h are correct",
                                       "upper bound on requests per byte stream: HTTP = occurrences of CRLFCRLF, SCGI = 1, FastCGI = occurrences of bytes 01 01"],
                          replay_fn=_replay_fn)


def replay(path):
    bins = verif.build_many(specs())
    return _replay_fn(bins)(path)


MUTATIONS = [
    dict(name="http-header-cap-removed", edits=[("src/http_api.cpp", "if(total_read_ > 16384) {", "if(total_read_ > 16384 && false) {")]),
    # (removed: fcgi-parse_pairs-overflow-check-swapped -- "p + nlen <= e" cannot wrap with 64-bit pointers and a 32-bit length:
    #  an equivalent mutant on every platform this sandbox can build)
    dict(name="negative-content-length-regression", edits=[("src/http_request.cpp", "\tif(d->content_length < 0)\n\t\treturn 400;\n", "")]),
    dict(name="scgi-missing-nul-regression", edits=[("src/scgi_api.cpp", "\t\t\t// last one is NUL terminated even if the peer did not do it\n\t\t\tbuffer_.back() = 0;\n", "")]),
    dict(name="scgi-length-cap-removed", edits=[("src/scgi_api.cpp", "if(len < 0 || 16384 < len) {", "if(len < 0) {")]),
    # (removed: multipart-eof-length-check-dropped -- accepting an epilogue after the closing boundary in a later chunk breaks nothing
    #  C02 states: no crash, no second handler call, other connections unaffected; RFC 2046 even allows an epilogue)
    dict(name="fcgi-stdin-type-check-dropped", edits=[("src/fastcgi_api.cpp", "\t\t\tif(\theader_.type!=fcgi_stdin \n\t\t\t\t|| header_.request_id!=request_id_ \n\t\t\t\t|| header_.content_length==0)", "\t\t\tif(\theader_.request_id!=request_id_ \n\t\t\t\t|| header_.content_length==0)")]),
    dict(name="on_error-called-twice", edits=[("src/http_request.cpp", "\tif(d->filter) {\n\t\td->filter->on_error();\n\t}", "\tif(d->filter) {\n\t\td->filter->on_error();\n\t\tif(d->read_size > 40) d->filter->on_error();\n\t}")]),
]
