#!/usr/bin/env python3
"""tools/seed_results.py : fill seeded/*/meta.json check_result from the latest sensitivity/results.jsonl verdict
(only entries still 'pending' or 'NOT caught' are rewritten; hand-written histories are kept)."""
import json, os, glob
root = os.path.dirname(os.path.dirname(os.path.abspath(__file__)))
latest = {}
for l in open(os.path.join(root, 'sensitivity/results.jsonl')):
    r = json.loads(l); latest[(r['property'], r['mutation'])] = r
for d in sorted(glob.glob(os.path.join(root, 'seeded/*/'))):
    sid = os.path.basename(d.rstrip('/')); prop = sid.split('-')[0]
    mp = d + 'meta.json'
    if not os.path.exists(mp): print('no meta', sid); continue
    m = json.load(open(mp)); r = latest.get((prop, sid))
    if not r: print('no result', sid); continue
    sigs = sorted({x.replace('--- failing case (', '').replace(') ---', '') for x in r['detail']})
    new = ("caught (%s) in %d s" % (', '.join(sigs), r['wall_s'])) if r['caught'] else "NOT caught (rc=%s, %d s)" % (r.get('rc'), r['wall_s'])
    cur = m.get('check_result', '')
    if cur.startswith('pending') or cur.startswith('NOT'):
        print(sid, cur, '->', new); m['check_result'] = new; json.dump(m, open(mp, 'w'), indent=1)
