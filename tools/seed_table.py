#!/usr/bin/env python3
"""tools/seed_table.py : markdown table of seeded/*/meta.json for DESIGN.md section 8.4"""
import json, glob, os, re
root = os.path.dirname(os.path.dirname(os.path.abspath(__file__)))
def short(t, n):
    t = re.sub(r'\s+', ' ', t).replace('|', '\\|'); return t if len(t) <= n else t[:n - 1].rsplit(' ', 1)[0] + ' …'
print("| change | file(s) | what it breaks (needs) | result of the property's quick tier |")
print("|---|---|---|---|")
for d in sorted(glob.glob(os.path.join(root, 'seeded/*/'))):
    m = json.load(open(d + 'meta.json'))
    print("| %s | %s | %s | %s |" % (m['id'], ', '.join(os.path.basename(f) for f in m.get('files_changed', [])), short(m['breaks'], 260), short(m.get('check_result', ''), 400)))
