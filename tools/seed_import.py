#!/usr/bin/env python3
"""tools/seed_import.py <cNN> <round> [--wt DIR] [--with RC --without RC --tests same|differ]
Copy a seeded change that tools/seed_verify.sh confirmed from its scratch worktree into /verif/seeded/<ID>-<round>/ :
patch.diff, demo.cpp, the agent's meta (meta.agent.json) and our meta.json (what it breaks, what it needs, what we ran).
check_result is filled in afterwards from sensitivity/results.jsonl (tools/seed_results.py)."""
import sys, os, json, shutil, argparse
ap = argparse.ArgumentParser()
ap.add_argument("id"); ap.add_argument("round")
ap.add_argument("--wt"); ap.add_argument("--with", dest="w", default="fails"); ap.add_argument("--without", dest="wo", default="passes")
ap.add_argument("--tests", default="same result with and without"); ap.add_argument("--note", default="")
a = ap.parse_args()
cid = a.id.lower(); ID = cid.upper(); wt = a.wt or "/tmp/seed2_%s" % cid if a.round != "1" else "/tmp/seed_%s" % cid
root = os.path.dirname(os.path.dirname(os.path.abspath(__file__)))
dst = os.path.join(root, "seeded", "%s-%s" % (ID, a.round)); os.makedirs(dst, exist_ok=True)
for f in ("patch.diff", "demo.cpp"):
    shutil.copy(os.path.join(wt, "_seed", f), os.path.join(dst, f))
ag = json.load(open(os.path.join(wt, "_seed", "meta.json")))
json.dump(ag, open(os.path.join(dst, "meta.agent.json"), "w"), indent=2)
meta = {
    "id": "%s-%s" % (ID, a.round), "property": ID,
    "breaks": ag.get("summary", ""), "needs_to_manifest": ag.get("needs", ""),
    "files_changed": ag.get("files_changed", []),
    "produced_by": "independent sub-agent given only the property text and a scratch worktree %s (nothing from /verif)" % wt,
    "confirmed_by_main_session": {
        "how": "tools/seed_verify.sh in the scratch worktree: demo built and run with the change (must fail) and with the change "
               "reverted (must pass); the existing tests named by the agent run with and without the change (must give identical results)",
        "demo_with_change": a.w, "demo_without_change": a.wo,
        "existing_tests": a.tests + ": " + ag.get("tests_run", "")[:400],
    },
    "demo_build_and_run": ag.get("demo_build_and_run", ""),
    "check_run": "tools/sens.py -w <n> --patch seeded/%s-%s/patch.diff %s  (scratch copy of /repo with the patch, quick tier, VERIF_SEED=1)" % (ID, a.round, ID),
    "check_result": "pending",
}
if a.note: meta["note"] = a.note
json.dump(meta, open(os.path.join(dst, "meta.json"), "w"), indent=1)
print("imported", dst)
