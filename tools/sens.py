#!/usr/bin/env python3
"""Sensitivity experiments: apply a small source mutation to a scratch copy of /repo, run a check against it
(VERIF_REPO=<copy>), expect a VIOLATION, revert.  The scratch copy and its sanitizer build are kept per worker
(/tmp/mut_w<N>, /verif/build/*-<hash>) so that consecutive mutations only rebuild the edited translation unit;
`--clean` removes them.  Nothing here ever touches /repo.

  tools/sens.py [-w N] [--tier quick] C15            run all mutations registered for C15 in props/cNN.py (MUTATIONS)
  tools/sens.py [-w N] C15:2                         only mutation #2
  tools/sens.py [-w N] --patch FILE C07              apply a unified diff (e.g. seeded/<id>/patch.diff) instead
  tools/sens.py -w N --clean
Results are appended to /verif/sensitivity/results.jsonl.
"""
import argparse, json, os, shutil, subprocess, sys, time, hashlib

HERE = os.path.dirname(os.path.dirname(os.path.abspath(__file__)))
sys.path.insert(0, os.path.join(HERE, "tools"))


def sync(work):
    os.makedirs(work, exist_ok=True)
    subprocess.check_call(["rsync", "-rlp", "--checksum", "--delete", "--exclude", "_build", "--exclude", ".git", "/repo/", work + "/"])


def tag_of(work):
    return hashlib.sha1(os.path.realpath(work).encode()).hexdigest()[:8]


def run_check(work, pid, tier, seed, timeout):
    env = dict(os.environ, VERIF_REPO=work, VERIF_SEED=str(seed))
    t0 = time.time()
    try:
        r = subprocess.run([os.path.join(HERE, "check"), pid, "--tier", tier], env=env, stdout=subprocess.PIPE, stderr=subprocess.STDOUT,
                           text=True, timeout=timeout, errors="replace")
        out, rc = r.stdout, r.returncode
    except subprocess.TimeoutExpired as e:
        out, rc = (e.stdout or ""), -1
        if isinstance(out, bytes):
            out = out.decode("utf-8", "replace")
    return rc, out, time.time() - t0


def main():
    ap = argparse.ArgumentParser()
    ap.add_argument("-w", "--worker", type=int, default=0)
    ap.add_argument("--tier", default="quick")
    ap.add_argument("--seed", type=int, default=1)
    ap.add_argument("--timeout", type=int, default=1800)
    ap.add_argument("--clean", action="store_true")
    ap.add_argument("--patch")
    ap.add_argument("--keep", action="store_true", help="leave the mutation applied (debugging)")
    ap.add_argument("--expect", default="violation", choices=["violation", "ok"], help="ok: the patch is a proposed fix, the check must pass")
    ap.add_argument("targets", nargs="*")
    a = ap.parse_args()
    work = "/tmp/mut_w%d" % a.worker
    if a.clean:
        shutil.rmtree(work, ignore_errors=True)
        t = tag_of(work)
        for d in os.listdir(os.path.join(HERE, "build")):
            if d.endswith("-" + t):
                shutil.rmtree(os.path.join(HERE, "build", d), ignore_errors=True)
        return 0
    sys.path.insert(0, HERE); sys.path.insert(0, os.path.join(HERE, "lib"))
    import importlib
    os.makedirs(os.path.join(HERE, "sensitivity"), exist_ok=True)
    allok = True
    for tgt in a.targets:
        pid, _, idx = tgt.partition(":")
        if a.patch:
            muts = [dict(name=os.path.basename(os.path.dirname(os.path.abspath(a.patch))) or a.patch, patch=a.patch)]
        else:
            muts = list(getattr(importlib.import_module("props." + pid.lower()), "MUTATIONS", []))
            if idx:
                muts = [muts[int(idx)]]
        for m in muts:
            sync(work)
            if "patch" in m:
                subprocess.check_call(["patch", "-p1", "-s", "-d", work, "-i", os.path.abspath(m["patch"])])
            else:
                for (f, old, new) in m["edits"]:
                    p = os.path.join(work, f)
                    s = open(p, encoding="utf-8", errors="surrogateescape").read()
                    if s.count(old) < 1:
                        raise SystemExit("mutation %s: pattern not found in %s: %r" % (m["name"], f, old))
                    s = s.replace(old, new, 1)
                    open(p, "w", encoding="utf-8", errors="surrogateescape").write(s)
            rc, out, wall = run_check(work, pid, a.tier, a.seed, a.timeout)
            caught = (rc == 1 and "VIOLATION property=%s" % pid in out) if a.expect == "violation" else (rc == 0)
            line = [l for l in out.splitlines() if l.startswith(("VIOLATION", "BROKEN", "OK ", "KNOWN"))]
            detail = [l for l in out.splitlines() if l.startswith("--- failing case")]
            rec = dict(property=pid, mutation=m["name"], tier=a.tier, seed=a.seed, caught=caught, rc=rc, wall_s=round(wall, 1),
                       lines=line[:6], detail=detail[:4], at=time.strftime("%Y-%m-%dT%H:%M:%S"))
            print(json.dumps(rec), flush=True)
            with open(os.path.join(HERE, "sensitivity", "results.jsonl"), "a") as fh:
                fh.write(json.dumps(rec) + "\n")
            if not caught:
                allok = False
                with open(os.path.join(HERE, "build", "sens-last-%d.log" % a.worker), "w") as fh:
                    fh.write(out)
            if a.keep:
                return 0
    sync(work)
    return 0 if allok else 1


if __name__ == "__main__":
    sys.exit(main())
