#!/bin/bash
# tools/seed_round.sh <round> <worker> cNN... : verify each delivered seed in /tmp/seed2_cNN (regex of the existing tests taken from the
# agent's meta.json "tests_run"), import it as seeded/<ID>-<round> when verification holds, then run the property's quick tier against it.
round=$1; worker=$2; shift 2
cd "$(dirname "$0")/.."
for id in "$@"; do
  wt=/tmp/seed2_$id; ID=$(echo $id | tr a-z A-Z)
  [ -f $wt/_seed/meta.json ] || { echo "=== $id: no deliverable"; continue; }
  python3 - "$wt" <<'PY'
import json,sys
p=sys.argv[1]+'/_seed/meta.json'; m=json.load(open(p)); d=m.get('demo_build_and_run','')
import re
d2=re.sub(r'\s+\((?=[a-zA-Z])', '   # (', d, count=1) if '#' not in d and re.search(r'/demo\s+\(', d) else d
if d2!=d: m['demo_build_and_run']=d2; json.dump(m,open(p,'w'),indent=1)
PY
  rx=$(python3 -c "
import json,re,sys
t=json.load(open('$wt/_seed/meta.json')).get('tests_run','')
m=re.search(r'-R\s+\\\\?[\'\"]([^\'\"]+?)\\\\?[\'\"]',t)
print(m.group(1) if m else 'json_test|base64_test')")
  echo "=== $id (tests: $rx)"
  out=$(WT=$wt tools/seed_verify.sh $id "$rx" 2>&1); echo "$out" | grep -E "demo exit|existing tests|^[<>]"
  if echo "$out" | grep -q "demo exit with change: [1-9][0-9]* (expect !=0); without: 0 " ; then
    python3 tools/seed_import.py $id $round && python3 tools/sens.py -w $worker --timeout 3000 --patch seeded/$ID-$round/patch.diff $ID | python3 -c "
import sys,json
for l in sys.stdin:
    try: r=json.loads(l)
    except Exception: continue
    print('SENS', r['property'], r['mutation'], 'caught' if r['caught'] else 'MISSED', r['rc'], int(r['wall_s']), [d[18:-5] for d in r['detail']][:4])"
  else
    echo "NOT VERIFIED $id"
  fi
done
