# Sensitivity mutations per property: (file, old, new) edits applied to a scratch copy of /repo by tools/sens.py.
# Each must compile; each is expected to be caught by the property's quick tier.
M = {}

M["C15"] = [
    dict(name="escape-string-drops-apostrophe", edits=[("src/util.cpp", "\t\t\tcase '\\'': content+=\"&#39;\"; break;\n", "")]),
    dict(name="urlencode-star-unreserved", edits=[("src/util.cpp", "\t\t\t\tcase '~':\n", "\t\t\t\tcase '~':\n\t\t\t\tcase '*':\n")]),
    dict(name="b64-encoded_size-case2", edits=[("src/base64.cpp", "case 2: return s/3*4+3;", "case 2: return s/3*4+2;")]),
    dict(name="b64-bdecode-shift", edits=[("src/base64.cpp", "out[ 1 ] = (unsigned char ) (in[1] << 4 | in[2] >> 2);", "out[ 1 ] = (unsigned char ) (in[1] << 4 | in[2] >> 3);")]),
    dict(name="escape-streambuf-amp-short", edits=[("src/util.cpp", "ok = output.sputn(\"&amp;\",5)==5;", "ok = output.sputn(\"&amp;\",5)>=0;")]),
    dict(name="urldecode-needs-4", edits=[("src/util.cpp", "if(end-begin >= 3 && http::protocol::xdigit(begin[1])", "if(end-begin >= 4 && http::protocol::xdigit(begin[1])")]),
    dict(name="b64-decode-empty-regression", edits=[("src/base64.cpp", "\t\toutput.clear();\n", "")]),
]
