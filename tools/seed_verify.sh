#!/bin/bash
# tools/seed_verify.sh <id> '<ctest regex>' : re-verify a seeded change in its scratch worktree /tmp/seed_<id>:
#  demo fails with the change, passes without; the named existing tests give the same result with and without.
#  (no git stash: the stash is shared by all worktrees of a repository)
id=$1; rx=$2; wt=${WT:-/tmp/seed_$id}; cd $wt || exit 2
P=$wt/_seed/patch.diff
run_demo() { bash -c "$(python3 -c "import json;print(json.load(open('$wt/_seed/meta.json'))['demo_build_and_run'].split('#')[0].replace('; echo exit=\$?','').split('[port')[0])")" > $wt/_seed/demo.$1.log 2>&1; echo $?; }
build() { cmake --build $wt/_build -j6 2>&1 | tail -1; }
tests() { unshare -rn sh -c "ip link set lo up; exec ctest --test-dir $wt/_build -R '$rx' --timeout 300" 2>&1 | grep -E "tests passed|Failed|Passed" | sed 's/ *[0-9.]* sec//' | sort > $wt/_seed/tests.$1.log; }
git checkout -q -- . ; git apply $P || { echo "patch does not apply"; exit 2; }
build; with=$(run_demo with); tests with
git apply -R $P; build; without=$(run_demo without); tests without
git apply $P; build
echo "demo exit with change: $with (expect !=0); without: $without (expect 0)"
if diff -q _seed/tests.with.log _seed/tests.without.log >/dev/null; then echo "existing tests: same result with and without"; else echo "existing tests DIFFER"; diff _seed/tests.with.log _seed/tests.without.log; fi
