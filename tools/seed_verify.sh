#!/bin/bash
# tools/seed_verify.sh <id> '<ctest regex>' : re-verify a seeded change in its scratch worktree /tmp/seed_<id>:
#  demo fails with the change, passes without; the named existing tests give the same result with and without.
id=$1; rx=$2; wt=/tmp/seed_$id; cd $wt || exit 2
run_demo() { bash -c "$(python3 -c "import json;print(json.load(open('$wt/_seed/meta.json'))['demo_build_and_run'].split('#')[0])")" > $wt/_seed/demo.$1.log 2>&1; echo $?; }
build() { cmake --build $wt/_build -j6 2>&1 | tail -1; }
tests() { ctest --test-dir $wt/_build -R "$rx" --timeout 300 2>&1 | grep -E "tests passed|Failed|Passed" | sed 's/ *[0-9.]* sec//' | sort > $wt/_seed/tests.$1.log; }
git diff --quiet && { echo "no change applied in $wt"; exit 2; }
git diff -- . ':(exclude)_seed' > _seed/patch.check.diff
build; with=$(run_demo with); tests with
git stash -q; build; without=$(run_demo without); tests without
git stash pop -q; build
echo "demo exit with change: $with (expect !=0); without: $without (expect 0)"
if diff -q _seed/tests.with.log _seed/tests.without.log >/dev/null; then echo "existing tests: same result with and without"; else echo "existing tests DIFFER"; diff _seed/tests.with.log _seed/tests.without.log; fi
cat _seed/tests.with.log | tail -5
