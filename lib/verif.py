# Shared machinery of the /verif checks: builds of /repo (always from the current
# working tree), harness compilation, parallel harness runs, report merging,
# known-findings matching, replay confirmation, evidence writing.
import fcntl, glob, hashlib, json, os, shlex, shutil, subprocess, sys, time, concurrent.futures

VERIF = os.path.dirname(os.path.dirname(os.path.abspath(__file__)))
REPO = os.environ.get("VERIF_REPO", "/repo")
BUILD = os.path.join(VERIF, "build")
GUARD = "CPPCMS_VERIF"
NCPU = int(os.environ.get("VERIF_JOBS", str(os.cpu_count() or 4)))

# nonnull-attribute is off: memcpy(p, q, 0) with p == NULL (empty stream buffer) is reported otherwise, which is not a violation of
# any listed property (DESIGN.md 2.2).  _GLIBCXX_ASSERTIONS turns libstdc++ precondition violations (front() of an empty vector,
# operator[] out of range) inside the library into aborts, so silent misuse of containers becomes visible.
SAN_ASAN = "-fsanitize=address,undefined,fuzzer-no-link -fno-sanitize-recover=undefined -fno-sanitize=nonnull-attribute -D_GLIBCXX_ASSERTIONS"
SAN_TSAN = "-fsanitize=thread -D_GLIBCXX_ASSERTIONS"
COMMON_CXX = "-g -O1 -fno-omit-frame-pointer -Wno-error -Wno-deprecated-declarations -D%s" % GUARD

CFGS = {
    "asan": dict(cxx=COMMON_CXX + " " + SAN_ASAN, c="-g -O1 -fsanitize=address,undefined,fuzzer-no-link",
                 link="-fsanitize=address,undefined"),
    "tsan": dict(cxx=COMMON_CXX + " " + SAN_TSAN, c="-g -O1 " + SAN_TSAN, link="-fsanitize=thread"),
}
LIBS = "-lpcre -licuuc -licui18n -licudata -lcrypto -lz -ldl -lpthread"


def log(*a):
    print("[verif]", *a, file=sys.stderr, flush=True)


def repo_tag():
    if os.path.realpath(REPO) == "/repo":
        return ""
    return "-" + hashlib.sha1(os.path.realpath(REPO).encode()).hexdigest()[:8]


def cfg_dir(cfg):
    return os.path.join(BUILD, cfg + "2" + repo_tag())


class Lock:
    def __init__(self, name):
        os.makedirs(BUILD, exist_ok=True)
        self.path = os.path.join(BUILD, "." + name + ".lock")

    def __enter__(self):
        self.f = open(self.path, "w")
        fcntl.flock(self.f, fcntl.LOCK_EX)
        return self

    def __exit__(self, *a):
        fcntl.flock(self.f, fcntl.LOCK_UN)
        self.f.close()


def sh(cmd, **kw):
    return subprocess.run(cmd, shell=isinstance(cmd, str), **kw)


def build_libs(cfg):
    """Incrementally (re)build libcppcms.a / libbooster.a of REPO's working tree for a sanitizer cfg."""
    d = cfg_dir(cfg)
    c = CFGS[cfg]
    with Lock("libs-" + cfg + repo_tag()):
        if not os.path.exists(os.path.join(d, "build.ninja")):
            os.makedirs(d, exist_ok=True)
            cmd = ["cmake", "-G", "Ninja", "-S", REPO, "-B", d, "-DCMAKE_BUILD_TYPE=None",
                   "-DCMAKE_C_COMPILER=clang", "-DCMAKE_CXX_COMPILER=clang++",
                   "-DCMAKE_CXX_FLAGS=" + c["cxx"], "-DCMAKE_C_FLAGS=" + c["c"], "-DDISABLE_SHARED=ON"]
            r = sh(cmd, stdout=subprocess.PIPE, stderr=subprocess.STDOUT, text=True)
            if r.returncode != 0:
                sys.stderr.write(r.stdout)
                raise SystemExit("cmake configure failed for " + cfg)
        r = sh(["ninja", "-C", d, "-j", str(NCPU), "cppcms-static", "booster-static"],
               stdout=subprocess.PIPE, stderr=subprocess.STDOUT, text=True)
        if r.returncode != 0:
            sys.stderr.write(r.stdout[-8000:])
            raise SystemExit("library build failed for " + cfg)
    return d


def includes(cfg=None):
    inc = ["-I" + REPO, "-I" + REPO + "/booster", "-I" + REPO + "/private", "-I" + REPO + "/src",
           "-I" + os.path.join(VERIF, "harness", "common"), "-I" + os.path.join(VERIF, "harness")]
    if cfg:
        d = cfg_dir(cfg)
        inc += ["-I" + d, "-I" + d + "/booster"]
    return inc


def _deps_changed(target, depfile, cmdline):
    stamp = target + ".cmd"
    if not (os.path.exists(target) and os.path.exists(depfile) and os.path.exists(stamp)):
        return True
    if open(stamp).read() != cmdline:
        return True
    t = os.path.getmtime(target)
    txt = open(depfile).read().replace("\\\n", " ")
    parts = txt.split(":", 1)
    if len(parts) < 2:
        return True
    for dep in shlex.split(parts[1]):
        try:
            if os.path.getmtime(dep) > t:
                return True
        except OSError:
            return True
    return False


def build_harness(name, srcs, cfg="asan", fuzzer=False, rapidcheck=False, wraps=(), extra=(), libs=True,
                  opt=None, std="gnu++14", header_only=False):
    """Compile+link one harness executable; returns its path.  cfg None/header_only: no cppcms libs."""
    if isinstance(srcs, str):
        srcs = [srcs]
    srcs = [s if os.path.isabs(s) else os.path.join(VERIF, "harness", s) for s in srcs]
    d = cfg_dir(cfg if cfg else "asan")
    if cfg and libs and not header_only:
        build_libs(cfg)
    outdir = os.path.join(BUILD, "h" + repo_tag())
    os.makedirs(outdir, exist_ok=True)
    target = os.path.join(outdir, name)
    depfile = target + ".d"
    if cfg == "tsan":
        san = ["-fsanitize=thread", "-D_GLIBCXX_ASSERTIONS"]
    elif cfg is None:
        san = []
    else:
        san = ["-fsanitize=address,undefined" + (",fuzzer" if fuzzer else ""), "-fno-sanitize-recover=undefined", "-fno-sanitize=nonnull-attribute", "-D_GLIBCXX_ASSERTIONS"]
    cmd = ["clang++", "-std=" + std, "-g", opt or "-O1", "-fno-omit-frame-pointer", "-D" + GUARD,
           "-Wno-deprecated-declarations"] + san + includes(cfg if (cfg and not header_only) else None) + list(extra) + srcs
    for w in wraps:
        cmd.append("-Wl,--wrap=" + w)
    if cfg and libs and not header_only:
        cmd += [d + "/libcppcms.a", d + "/booster/libbooster.a"] + LIBS.split()
    else:
        cmd += ["-lpthread"]
    if rapidcheck:
        cmd.append("-lrapidcheck")
    cmdline = " ".join(cmd)
    libdeps = [d + "/libcppcms.a", d + "/booster/libbooster.a"] if (cfg and libs and not header_only) else []
    with Lock("h-" + name + repo_tag()):
        need = _deps_changed(target, depfile, cmdline)
        if not need:
            t = os.path.getmtime(target)
            need = any(os.path.getmtime(x) > t for x in libdeps)
        if need:
            t0 = time.time()
            r = sh(cmd + ["-MD", "-MF", depfile, "-MT", "x", "-o", target + ".tmp"], stdout=subprocess.PIPE, stderr=subprocess.STDOUT, text=True)
            if r.returncode != 0:
                sys.stderr.write(r.stdout[-12000:])
                raise SystemExit("harness build failed: " + name)
            os.replace(target + ".tmp", target)
            open(target + ".cmd", "w").write(cmdline)
            log("built %s in %.1fs" % (name, time.time() - t0))
    return target


def build_many(specs):
    """specs: list of kwargs for build_harness; builds libs first then harnesses in parallel; returns {name: path}."""
    cfgs = set(s.get("cfg", "asan") for s in specs if s.get("cfg", "asan") and s.get("libs", True) and not s.get("header_only"))
    for c in cfgs:
        build_libs(c)
    out = {}
    with concurrent.futures.ThreadPoolExecutor(max_workers=min(NCPU, 8)) as ex:
        futs = {ex.submit(build_harness, **s): s["name"] for s in specs}
        for f in concurrent.futures.as_completed(futs):
            out[futs[f]] = f.result()
    return out


# ----------------------------------------------------------------------------------------------

def _die_with_parent():
    # harness processes must not outlive the driver (a killed ./check would otherwise leave them spinning)
    try:
        import ctypes
        ctypes.CDLL("libc.so.6", use_errno=True).prctl(1, 9)     # PR_SET_PDEATHSIG, SIGKILL
    except Exception:
        pass


def san_env(cfg="asan"):
    e = dict(os.environ)
    # malloc_context_size/quarantine: rapidcheck makes ASan's stack depot and quarantine grow to GBs otherwise
    e["ASAN_OPTIONS"] = ("detect_leaks=0:abort_on_error=0:exitcode=77:allocator_may_return_null=1:detect_stack_use_after_return=0:"
                         "handle_abort=1:malloc_context_size=8:quarantine_size_mb=64")
    e["UBSAN_OPTIONS"] = "print_stacktrace=1:halt_on_error=1:exitcode=78"
    e["TSAN_OPTIONS"] = "halt_on_error=1:exitcode=79:second_deadlock_stack=1:report_signal_unsafe=0"
    e["ASAN_SYMBOLIZER_PATH"] = shutil.which("llvm-symbolizer") or shutil.which("llvm-symbolizer-14") or ""
    return e


class Unit:
    """One harness process of a check run."""

    def __init__(self, name, argv, env=None, timeout=1800, group=None, cwd=None, artifact_prefix=None, corpus_dir=None):
        self.name, self.argv, self.env, self.timeout = name, argv, env or {}, timeout
        self.artifact_prefix = artifact_prefix   # libFuzzer units
        self.corpus_dir = corpus_dir
        self.group = group or name
        self.cwd = cwd
        self.report = None
        self.rc = None
        self.output = ""
        self.wall = 0.0


def scratch_dir(tag):
    d = os.path.join(BUILD, "scratch", "%s-%d" % (tag, os.getpid()))
    shutil.rmtree(d, ignore_errors=True)
    os.makedirs(d, exist_ok=True)
    return d


def replay_dir(prop):
    """Failing cases found on /repo itself go to /verif/replays/<ID>/; on scratch copies (sensitivity runs) to build/."""
    d = os.path.join(VERIF, "replays", prop) if not repo_tag() else os.path.join(BUILD, "replays" + repo_tag(), prop)
    os.makedirs(d, exist_ok=True)
    return d


def run_units(units, prop, seed, tier, jobs=None):
    """Run harness processes in parallel; each writes a JSON report to $VERIF_REPORT."""
    sdir = scratch_dir(prop)
    rdir = replay_dir(prop)

    slots_dir = os.path.join(BUILD, ".slots")
    os.makedirs(slots_dir, exist_ok=True)
    nslots = int(os.environ.get("VERIF_SLOTS", str(NCPU + 2)))

    def acquire_slot():
        # machine-wide cap on concurrently running harness processes (several checks may run at once)
        import random
        while True:
            order = list(range(nslots))
            random.shuffle(order)
            for k in order:
                f = open(os.path.join(slots_dir, "slot-%d" % k), "w")
                try:
                    fcntl.flock(f, fcntl.LOCK_EX | fcntl.LOCK_NB)
                    return f
                except OSError:
                    f.close()
            time.sleep(0.2)

    def one(i_u):
        i, u = i_u
        slot = acquire_slot()
        try:
            return one_locked(i, u)
        finally:
            fcntl.flock(slot, fcntl.LOCK_UN)
            slot.close()

    def one_locked(i, u):
        env = san_env()
        env.update({"VERIF_SEED": str(seed), "VERIF_TIER": tier, "VERIF_PROP": prop,
                    "VERIF_REPORT": os.path.join(sdir, "report-%d.json" % i),
                    "VERIF_REPLAY_DIR": rdir, "VERIF_SCRATCH": os.path.join(sdir, "u%d" % i),
                    "VERIF_UNIT": u.name, "VERIF_REPO": REPO,
                    "VERIF_REGRESSION_DIR": os.path.join(VERIF, "replays", prop)})
        os.makedirs(env["VERIF_SCRATCH"], exist_ok=True)
        env.update({k: str(v) for k, v in u.env.items()})
        t0 = time.time()
        try:
            # thorough tiers get four times the unit's time limit: the limit is a safety net against hangs, not a budget
            r = subprocess.run(u.argv, env=env, stdout=subprocess.PIPE, stderr=subprocess.STDOUT, timeout=u.timeout * (4 if tier == "thorough" else 1), preexec_fn=_die_with_parent,
                               cwd=u.cwd or env["VERIF_SCRATCH"], errors="replace", text=True)
            u.rc, u.output = r.returncode, r.stdout
        except subprocess.TimeoutExpired as e:
            u.rc, u.output = -999, (e.stdout or b"").decode("utf-8", "replace") if isinstance(e.stdout, bytes) else (e.stdout or "")
        u.wall = time.time() - t0
        try:
            u.report = json.load(open(env["VERIF_REPORT"]))
        except Exception:
            u.report = None
        return u

    with concurrent.futures.ThreadPoolExecutor(max_workers=jobs or NCPU) as ex:
        list(ex.map(one, enumerate(units)))
    return sdir


def load_known(prop):
    p = os.path.join(VERIF, "known_findings.json")
    if not os.path.exists(p):
        return []
    return [k for k in json.load(open(p)).get("findings", []) if k.get("property") == prop]


class Result:
    def __init__(self, prop, tier, seed, level="exploration"):
        self.prop, self.tier, self.seed, self.level = prop, tier, seed, level
        self.t0 = time.time()
        self.evaluations = 0
        self.nontrivial = 0
        self.samples = []
        self.classes = {}
        self.units = []
        self.failures = []      # dict(sig, replay, msg, unit)
        self.broken = []        # strings: harness malfunction (not a violation)
        self.inconclusive = 0
        self.excluded = {}
        self.exhaustive = None
        self.rule = ""
        self.assumptions = []
        self.extra = {}
        self.known_printed = []
        self.nonreplay_sig = None     # optional: failure -> signature to use when it did not replay (schedule dependent classes)
        self.schedule_dependent = []

    def absorb(self, units, floor=None):
        """Merge unit reports.  floor: {group: minimum evaluations} -> broken if not reached."""
        groups = {}
        for u in units:
            rep = u.report
            info = {"unit": u.name, "rc": u.rc, "wall_s": round(u.wall, 1)}
            if rep is None:
                arts = []
                if u.artifact_prefix:
                    arts = sorted(glob.glob(u.artifact_prefix + "crash-*") + glob.glob(u.artifact_prefix + "leak-*"), key=os.path.getmtime)
                if arts and u.rc != 0:
                    # a libFuzzer unit that died (sanitizer / assertion) before its first report flush: the artifact is the evidence
                    self.failures.append({"sig": "crash:sanitizer:" + u.group, "replay": arts[-1], "msg": u.output[-4000:], "unit": u.name})
                else:
                    self.broken.append("unit %s produced no report (rc=%s)\n%s" % (u.name, u.rc, u.output[-3000:]))
                self.units.append(info)
                continue
            info.update({k: rep.get(k) for k in ("evaluations", "nontrivial", "inconclusive") if k in rep})
            self.units.append(info)
            g = groups.setdefault(u.group, dict(ev=0, nt_sum=0, nt_max=0, disjoint=True))
            g["ev"] += rep.get("evaluations", 0)
            g["nt_sum"] += rep.get("nontrivial", 0)
            g["nt_max"] = max(g["nt_max"], rep.get("nontrivial", 0))
            if not rep.get("disjoint", False):
                g["disjoint"] = False
            self.inconclusive += rep.get("inconclusive", 0)
            for k, v in rep.get("classes", {}).items():
                self.classes[k] = self.classes.get(k, 0) + v
            for k, v in rep.get("excluded", {}).items():
                self.excluded[k] = self.excluded.get(k, 0) + v
            for s in rep.get("samples", []):
                if len(self.samples) < 12:
                    self.samples.append(s)
            for f in rep.get("failures", []):
                f = dict(f)
                f["unit"] = u.name
                self.failures.append(f)
            if u.artifact_prefix:
                # libFuzzer unit: statistics from its own output, crashes from its artifacts
                import re
                mm = re.search(r"stat::number_of_executed_units:\s*(\d+)", u.output)
                if mm:
                    info["libfuzzer_execs"] = int(mm.group(1))
                if u.corpus_dir and os.path.isdir(u.corpus_dir):
                    info["corpus_units"] = len(os.listdir(u.corpus_dir))
                arts = sorted(glob.glob(u.artifact_prefix + "crash-*") + glob.glob(u.artifact_prefix + "leak-*"), key=os.path.getmtime)
                noise = glob.glob(u.artifact_prefix + "timeout-*") + glob.glob(u.artifact_prefix + "oom-*") + glob.glob(u.artifact_prefix + "slow-unit-*")
                for n in noise:
                    os.unlink(n)
                if u.rc != 0 and not rep.get("failures"):
                    if arts:
                        self.failures.append({"sig": "crash:sanitizer:" + u.group, "replay": arts[-1], "msg": u.output[-4000:], "unit": u.name})
                    elif noise or u.rc == -999:
                        self.inconclusive += 1
                    else:
                        self.broken.append("fuzz unit %s ended rc=%s without artifact\n%s" % (u.name, u.rc, u.output[-2000:]))
            elif u.rc == -999 and not rep.get("failures"):
                # the unit hit its wall-clock limit (overloaded machine): inconclusive, never a violation; the floors below
                # still turn "explored too little" into a BROKEN-CHECK
                self.inconclusive += 1
                print("[verif] INCONCLUSIVE unit %s hit its time limit after %d evaluations" % (u.name, rep.get("evaluations", 0)))
            elif u.rc != 0 and not rep.get("failures"):
                # crashed (sanitizer / trap / abort) without recording a failure itself
                self.failures.append({"sig": "crash:rc=%s" % u.rc, "replay": rep.get("current_case", ""),
                                      "msg": u.output[-4000:], "unit": u.name, "crash": True})
            if not rep.get("finished", False) and u.rc == 0:
                self.broken.append("unit %s exited 0 without finishing" % u.name)
        for gname, g in groups.items():
            self.evaluations += g["ev"]
            # shards of one group that draw from the same random space: count the largest shard only
            self.nontrivial += g["nt_sum"] if g["disjoint"] else g["nt_max"]
            if floor and gname in floor and g["ev"] < floor[gname]:
                self.broken.append("group %s explored %d cases < floor %d" % (gname, g["ev"], floor[gname]))

    def add_failure(self, sig, replay, msg, unit=""):
        self.failures.append({"sig": sig, "replay": replay, "msg": msg, "unit": unit})

    def finish(self, replay_fn=None):
        """Match failures with known findings, confirm by replay, write evidence, print lines, return exit code."""
        known = load_known(self.prop)
        violations = []
        seen = set()
        for f in self.failures:
            key = f.get("sig")
            if key in seen:
                continue
            seen.add(key)
            k = next((k for k in known if k.get("status") == "known" and sig_match(k.get("signature", ""), f.get("sig", ""))), None)
            if k:
                if k["signature"] not in self.known_printed:
                    self.known_printed.append(k["signature"])
                    print("KNOWN-FINDING: property=%s %s" % (self.prop, k.get("text", k["signature"])), flush=True)
                continue
            ok = True
            if replay_fn and f.get("replay") and os.path.exists(f["replay"]):
                fails = sum(1 for _ in range(3) if replay_fn(f["replay"]))
                if fails == 0 and self.nonreplay_sig and self.nonreplay_sig(f):
                    # a failure class that is known to depend on the thread schedule: re-classified, then matched against
                    # the known findings like any other signature (an unlisted one stays a broken/flaky check)
                    nsig = self.nonreplay_sig(f)
                    k = next((k for k in known if k.get("status") == "known" and sig_match(k.get("signature", ""), nsig)), None)
                    if k:
                        self.schedule_dependent.append({"sig": f.get("sig"), "as": nsig, "replay": f.get("replay")})
                        if k["signature"] not in self.known_printed:
                            self.known_printed.append(k["signature"])
                            print("KNOWN-FINDING: property=%s %s" % (self.prop, k.get("text", k["signature"])), flush=True)
                        continue
                if fails == 0:
                    self.broken.append("failure %s did not replay from %s (flaky)\n%s" % (f.get("sig"), f["replay"], f.get("msg", "")[-2000:]))
                    ok = False
                elif fails < 3:
                    self.broken.append("failure %s replayed only %d/3 times from %s" % (f.get("sig"), fails, f["replay"]))
                    ok = False
            if ok:
                violations.append(f)
        cov = {
            "evaluations": int(self.evaluations),
            "distinct_nontrivial": int(self.nontrivial),
            "rule": self.rule,
            "samples": self.samples[:12] or ["<none>"],
            "classes": self.classes,
            "units": self.units,
            "inconclusive": self.inconclusive,
            "excluded_known_classes": self.excluded,
        }
        if self.exhaustive is not None:
            cov["exhaustive"] = bool(self.exhaustive)
        cov.update(self.extra)
        ev = {
            "property_id": self.prop, "tier": self.tier, "seed": int(self.seed), "level": self.level,
            "coverage": cov, "assumptions": self.assumptions, "wall_s": round(time.time() - self.t0, 2),
            "violations": len(violations),
            "known_findings_reported": self.known_printed,
            "schedule_dependent_failures": self.schedule_dependent,
            "broken": self.broken,
            "repo": REPO,
        }
        if violations:
            ev["violation_details"] = [{"sig": v.get("sig"), "replay": v.get("replay"), "msg": (v.get("msg") or "")[-1500:]} for v in violations]
        if os.path.realpath(REPO) == "/repo" or os.environ.get("VERIF_WRITE_EVIDENCE"):
            os.makedirs(os.path.join(VERIF, "evidence"), exist_ok=True)
            p = os.path.join(VERIF, "evidence", self.prop + ".json")
            with open(p + ".tmp", "w") as fh:
                json.dump(ev, fh, indent=1)
            os.replace(p + ".tmp", p)
        # every listed known finding is reported on each run, whether or not this run happened to reproduce it
        for k in known:
            if k.get("status") == "known" and k["signature"] not in self.known_printed:
                self.known_printed.append(k["signature"])
                print("KNOWN-FINDING: property=%s %s [listed; not reproduced in this run]" % (self.prop, k.get("text", k["signature"])), flush=True)
        for v in violations:
            print("--- failing case (%s) ---\n%s" % (v.get("sig"), (v.get("msg") or "")[-3000:]), flush=True)
            print("VIOLATION property=%s replay=%s" % (self.prop, v.get("replay") or "<none>"), flush=True)
        if violations:
            return 1
        if self.broken:
            for b in self.broken:
                print("BROKEN-CHECK property=%s %s" % (self.prop, b), flush=True)
            return 2
        print("OK property=%s tier=%s seed=%s evaluations=%d distinct_nontrivial=%d wall=%.1fs" % (
            self.prop, self.tier, self.seed, self.evaluations, self.nontrivial, time.time() - self.t0), flush=True)
        return 0


def fuzz_unit(name, binary, prop, seed, runs, max_len=4096, seeds=(), dict_file=None, group=None, env=None, timeout=3600,
              extra=(), len_control=None):
    """A libFuzzer campaign as a Unit: fresh corpus dir (scratch), read-only seed dirs, fixed -seed/-runs."""
    cdir = os.path.join(BUILD, "scratch", "corpus-%s-%d" % (name, os.getpid()))
    shutil.rmtree(cdir, ignore_errors=True)
    os.makedirs(cdir, exist_ok=True)
    prefix = os.path.join(replay_dir(prop), name + ".")
    argv = [binary, cdir] + [d for d in seeds if os.path.isdir(d) and os.listdir(d)]
    argv += ["-seed=%d" % (seed if seed else 1), "-runs=%d" % runs, "-max_len=%d" % max_len, "-artifact_prefix=" + prefix,
             "-print_final_stats=1", "-timeout=120", "-rss_limit_mb=6000", "-verbosity=0", "-use_value_profile=1"]
    if len_control is not None:
        argv.append("-len_control=%d" % len_control)
    if dict_file and os.path.exists(dict_file):
        argv.append("-dict=" + dict_file)
    argv += list(extra)
    return Unit(name, argv, env=env, timeout=timeout, group=group or name, artifact_prefix=prefix, corpus_dir=cdir)


def sig_match(pattern, sig):
    import fnmatch
    return fnmatch.fnmatchcase(sig, pattern)


def rc_params(seed, n, size=None, extra=""):
    s = "seed=%d max_success=%d" % (int(seed) if int(seed) != 0 else 1, n)
    if size is not None:
        s += " max_size=%d" % size
    if extra:
        s += " " + extra
    return s


def replay_with(binary, extra_env=None, args_fn=None, timeout=1500):
    """Returns replay_fn(path) -> True when the case FAILS again."""
    def fn(path):
        env = san_env()
        env["VERIF_REPORT"] = os.path.join(BUILD, "scratch", "replay-%d.json" % os.getpid())
        env["VERIF_SCRATCH"] = scratch_dir("replay")
        env["VERIF_REPLAY_DIR"] = os.path.join(BUILD, "scratch", "replay-out-%d" % os.getpid())
        os.makedirs(env["VERIF_REPLAY_DIR"], exist_ok=True)
        if extra_env:
            env.update({k: str(v) for k, v in extra_env.items()})
        argv = args_fn(path) if args_fn else [binary, "--replay", path]
        try:
            r = subprocess.run(argv, env=env, stdout=subprocess.PIPE, stderr=subprocess.STDOUT, timeout=timeout, preexec_fn=_die_with_parent,
                               cwd=env["VERIF_SCRATCH"], text=True, errors="replace")
        except subprocess.TimeoutExpired:
            return False
        return r.returncode != 0
    return fn


def cleanup_scratch():
    shutil.rmtree(os.path.join(BUILD, "scratch"), ignore_errors=True)


# ----------------------------------------------------------------------------------------------
def find_harness(path, names):
    b = os.path.basename(path)
    best = None
    for n in names:
        if n in b and (best is None or len(n) > len(best)):
            best = n
    return best


def make_replay(bins, fuzz_names=(), extra_env=None):
    """replay function over all harnesses of a property; returns True when the saved case still fails."""
    def fn(path):
        n = find_harness(path, list(bins.keys()))
        if n is None:
            n = sorted(bins.keys())[0]
        if n in fuzz_names:
            f = replay_with(bins[n], extra_env=extra_env, args_fn=lambda p: [bins[n], p])
        else:
            f = replay_with(bins[n], extra_env=extra_env)
        return f(path)
    return fn


def standard(prop, tier, seed, specs, units_fn, rule, level="exploration", floor=None, assumptions=(), fuzz_names=(),
             post=None, replay_env=None, extra=None, exhaustive=None, jobs=None, nonreplay_sig=None, replay_fn=None):
    """The usual shape of a check: build, run units in parallel, merge, confirm failures by replay, write evidence."""
    res = Result(prop, tier, seed, level)
    res.rule = rule
    res.assumptions = list(assumptions)
    res.exhaustive = exhaustive
    res.nonreplay_sig = nonreplay_sig
    if extra:
        res.extra.update(extra)
    bins = build_many(specs)
    units = units_fn(bins, tier, seed)
    sdir = run_units(units, prop, seed, tier, jobs=jobs)
    res.absorb(units, floor=floor(tier) if callable(floor) else floor)
    if post:
        post(res, units, bins)
    rc = res.finish(replay_fn(bins) if replay_fn else make_replay(bins, fuzz_names, replay_env))
    shutil.rmtree(sdir, ignore_errors=True)
    shutil.rmtree(os.path.join(BUILD, "scratch", "replay-%d" % os.getpid()), ignore_errors=True)
    shutil.rmtree(os.path.join(BUILD, "scratch", "replay-out-%d" % os.getpid()), ignore_errors=True)
    return rc


def standard_replay(specs, path, fuzz_names=(), replay_env=None):
    bins = build_many(specs)
    r = make_replay(bins, fuzz_names, replay_env)(path)
    shutil.rmtree(os.path.join(BUILD, "scratch", "replay-%d" % os.getpid()), ignore_errors=True)
    return r
