#!/usr/bin/env python3
"""Regenerates corpus/C04/seeds/*: 21 configuration bytes (see harness/c04_oracle.h, Cfg::from_bytes) + an HTML snippet."""
import os, hashlib
K = dict(none=0, bool=1, int=2, re_any=3, re_word=4, re_align=5, re_hex=6, uri=7, uri_list=8, rel=9, abs_list=10, abs=11)
NATURAL_TAGS = bytes([0xD5, 0x7A])   # a b i h1: pair, p input: any, br img: stand-alone
ALL_ANY = bytes([0xFF, 0xFF])


def cfg(flags, enc=0, repl=0, tags=NATURAL_TAGS, schemes=3, attrs=("uri", "uri_list", "re_any", "re_any", "re_word", "int", "bool", "re_align")):
    b = bytes([flags, enc | (repl << 4)]) + tags + bytes([schemes])
    for a in attrs:
        b += bytes([K[a], 0xFF])
    assert len(b) == 21
    return b


XHTML, COMMENTS, NUMERIC, ESCAPE, ENTS = 1, 2, 4, 8, 0x70
CFGS = [cfg(XHTML), cfg(XHTML | ESCAPE | COMMENTS | NUMERIC | ENTS), cfg(COMMENTS | NUMERIC), cfg(ESCAPE, enc=1, repl=1),
        cfg(XHTML | COMMENTS, enc=1), cfg(0, enc=3, repl=2), cfg(XHTML | ESCAPE, enc=5, repl=1), cfg(NUMERIC, enc=8), cfg(XHTML, enc=9), cfg(0, enc=10),
        cfg(XHTML | NUMERIC, tags=ALL_ANY, schemes=0x3F, attrs=("rel", "abs_list", "re_any", "re_word", "re_hex", "re_hex", "bool", "re_any")),
        cfg(ESCAPE | NUMERIC | COMMENTS, tags=ALL_ANY, schemes=1, attrs=("abs", "uri", "re_any", "re_any", "re_any", "int", "bool", "re_any"))]
DOCS = [b"hello <b>bold</b> &amp; <i>it</i><br/>",
        b"<a href=\"http://example.com/?a=b&amp;c=d#f\" title='t &quot;x&quot;'>link</a><img src='/i.png' alt=\"it&apos;s\" width=\"10\" />",
        b"<p style=\"text-align:left\" class='c1'>x<p>y</p><input checked />&lt;&#65;&#x3c;&nbsp;&copy;",
        b"<!-- c --><b><i>x</b></i><script>alert(1)</script><a href=\"javascript:alert(1)\">x</a><img src=x onerror=alert(1)>",
        b"<input checked='checked' /><input checked ><h1 class=\"a\" CLASS=\"b\">t</H1></p><b",
        b"&foo; &amp &#0; &#xD800; <!-- <b> --> <!-- -- --> > < \" ' <a href='jav&#x61;script:x'>y</a>",
        b"<a href='mailto:a@b.c'>m</a><a href=\"data:text/html,x\">d</a><a href='//h/p'>r</a><a href=\"1x:80/p\">q</a>",
        b"\xd7\xa9\xd7\x9c\xd7\x95\xd7\x9d \xff <b>\x04</b> \xc0\xbc <i>\xe2\x82\xac</i>",
        b"<b>\xd8\x3d\xde\x00</b>\xdc\x00<i>\x80\x01</i>x\x81"]
# numeric character references: literal big values, and (flag bit 7 = STRUCT) the 0x1D expansion of harness/c04_fuzz.cpp:
# 0x1D form zeros value-class cp-selector aux
STRUCT = 0x80
NUM_DOCS = [b"a<b>&#x10000003C;</b>&#4294967361; &#18446744073709551681; &#x0000000000000041; &#000065; &#X110000; &#1114112;<x>",
            b"<p title=\"&#x10000003C;\">&#2147483713;</p>&#9223372036854775873;&#x7fffffff;&#xFFFFFFFF;&#4294967295;&#4294967296;",
            b"<b>\x1d\x00\x00\x01\x00\x00</b>\x1d\x01\x07\x04\x01\x05 \x1d\x02\x09\x0f\x03\x21<i>\x1d\x00\x04\x05\x04\x07</i>\x1d\x03\x00\x0e\x00\x04<x>",
            b"<p title='\x1d\x01\x00\x01\x02\x00'>\x1d\x00\x08\x03\x00\x09</p>\x1d\x05\x0a\x10\x00\x11\x1d\x02\x01\x07\x01\x00\x1d\x00\x00\x06\x00\x00"]
NUM_CFGS = [cfg(XHTML | NUMERIC | STRUCT), cfg(NUMERIC | ESCAPE | STRUCT), cfg(XHTML | ESCAPE | NUMERIC | COMMENTS | STRUCT, enc=1), cfg(STRUCT), cfg(NUMERIC | STRUCT, enc=8)]
out = os.path.join(os.path.dirname(os.path.abspath(__file__)), "seeds")
os.makedirs(out, exist_ok=True)
for f in os.listdir(out):
    os.unlink(os.path.join(out, f))
n = 0
for i, c in enumerate(CFGS):
    for j, d in enumerate(DOCS):
        if (i + j) % 3 and i > 1:
            continue
        data = c + d
        open(os.path.join(out, "s%02d_%02d" % (i, j)), "wb").write(data)
        n += 1
for i, c in enumerate(NUM_CFGS):
    for j, d in enumerate(NUM_DOCS):
        open(os.path.join(out, "n%02d_%02d" % (i, j)), "wb").write(c + d)
        n += 1
print(n, "seeds")
