#!/usr/bin/env python3
"""Regenerates MANIFEST.json from props/cNN.py (one module per claimed property)."""
import glob, importlib, json, os, sys
HERE = os.path.dirname(os.path.abspath(__file__))
sys.path.insert(0, os.path.join(HERE, "lib"))
sys.path.insert(0, HERE)

PENDING_REASON = "check not built yet in this commit (work in progress; see DESIGN.md section 3 for the planned generated-input check)"


def main():
    ids = [json.loads(l)["id"] for l in open(os.path.join(HERE, "properties.jsonl")) if l.strip()]
    checks, na, engines = [], [], {}
    claimed = set(open(os.path.join(HERE, "claimed.txt")).read().split())
    for pid in ids:
        p = os.path.join(HERE, "props", pid.lower() + ".py")
        if not os.path.exists(p) or pid not in claimed:
            na.append({"property_id": pid, "reason": PENDING_REASON})
            continue
        m = importlib.import_module("props." + pid.lower())
        if not getattr(m, "CLAIMED", True):
            na.append({"property_id": pid, "reason": getattr(m, "NOT_CLAIMED_REASON", PENDING_REASON)})
            continue
        checks.append({
            "property_id": pid,
            "quick_cmd": "./check %s --tier quick" % pid,
            "thorough_cmd": "./check %s --tier thorough" % pid,
            "evidence_file": "/verif/evidence/%s.json" % pid,
            "replay_cmd_template": "./check %s --replay {path}" % pid,
            "engine": getattr(m, "ENGINE", "rapidcheck"),
            "level_claimed": {"category": m.LEVEL, "text": m.LEVEL_TEXT, "design_ref": "DESIGN.md section " + m.DESIGN_REF},
            "level_note": m.LEVEL_NOTE,
            "technique": m.TECHNIQUE,
        })
        for e in getattr(m, "ENGINE", "rapidcheck").replace("+", ",").split(","):
            engines.setdefault(e.strip(), []).append(pid)
    eng_info = {
        "rapidcheck": ("/usr/include/rapidcheck + librapidcheck.a", "property-based testing library (structured generators, rc::state, shrinking), seeded via RC_PARAMS"),
        "libFuzzer": ("clang -fsanitize=fuzzer", "coverage-guided in-process fuzzer; semantic oracle inside LLVMFuzzerTestOneInput"),
        "enumeration": ("harness/*.cpp", "exhaustive generation of a finite input sub-space (limiting case of generation)"),
    }
    man = {
        "version": 1,
        "setup_cmd": "./check setup",
        "hooks": {
            "guard": "CPPCMS_VERIF",
            "enable": "checks build /repo out of tree (build/asan2, build/tsan2) with clang, -DCPPCMS_VERIF and sanitizers; no source hook exists: "
                      "observation points are obtained by link-time wrapping (--wrap=readv,writev,time,write,epoll_wait,poll,select,connect, chosen per harness) inside the harness executables",
            "baseline_off_cmd": "cmake -G Ninja -S /repo -B /repo/_build >/dev/null && cmake --build /repo/_build -j16 >/dev/null && ctest --test-dir /repo/_build -j8 --timeout 900",
            "source_commits": [],
            "add_only": True,
        },
        "engines": [{"name": k, "path": eng_info.get(k, ("", ""))[0], "serves_properties": v, "kind_free_text": eng_info.get(k, ("", ""))[1]} for k, v in sorted(engines.items())],
        "checks": checks,
        "not_applicable": na,
        "notes": "Driver: ./check <ID> --tier quick|thorough (exit 0 ok, 1 + VIOLATION line, 2 + BROKEN-CHECK line when the harness itself malfunctioned). "
                 "Known / fixed findings: known_findings.json. Sensitivity experiments: tools/sens.py with the MUTATIONS lists in props/cNN.py, results in sensitivity/ (SUMMARY.md). Seeded breakages by independent sub-agents, four rounds: seeded/<ID>-<round>/ (DESIGN.md 8.4).",
    }
    with open(os.path.join(HERE, "MANIFEST.json"), "w") as f:
        json.dump(man, f, indent=1)
    print("MANIFEST.json: %d checks, %d not claimed" % (len(checks), len(na)))


if __name__ == "__main__":
    main()
